#!/usr/bin/env python3
"""Regenerates /verif/MANIFEST.json from the table below (single source of truth for the interface)."""
import json, os, subprocess
ROOT = os.path.dirname(os.path.dirname(os.path.abspath(__file__)))

TRUST = "Trusted: rustc/std (char::to_lowercase, HashMap, catch_unwind), serde_json, the harness itself (its reference model is validated against the upstream conformance corpus by ./check selftest; every violation is re-executed twice from its replay file before it is reported). Statements hold for the alphabets, token bounds, deviation counts, depths and universes recorded in the evidence file."

CHECKS = {
 "C01": ("exploration", "3", "bounded-exhaustive input enumeration (token-language tree, every node) on the real parser/formatter; round-trip self-consistency oracle",
   "No string of the listed token lenses (up to n tokens, every node of the token tree; plus the pumping family) that the real parser accepts - as GenericPurl<String>, GenericPurl<SmallString> or Purl - fails parse->format->parse->format. Exhaustive inside the stated bounds; the oracle is the implementation itself, so nothing is unjudged."),
 "C02": ("exploration", "3", "bounded-exhaustive input enumeration against an independent reference parser",
   "Every string of the token lenses that the independent reference parser judges free of defects is accepted by the real parser with exactly the reference components (type-agnostic and typed)."),
 "C04": ("exploration", "3", "bounded-exhaustive input enumeration; invariants checked on every value handed out",
   "Every value the parser hands out for any string of the lenses satisfies the C04 invariants, read through the public accessors only."),
 "C05": ("fault_enumeration", "3", "bounded-exhaustive input enumeration against an independent reference parser that collects all defect classes",
   "Every string of the token lenses in which the reference parser finds at least one listed defect (and nothing it leaves unjudged) is refused; when exactly one defect class is present the error is the one the property names."),
 "C06": ("exploration", "3", "bounded-exhaustive input enumeration under catch_unwind in a build with overflow checks and debug assertions",
   "No string of the lenses or of the deterministic pumping family (up to 1 MiB) makes from_str, to_string, Debug, clone, into_builder, build or the typed checksum accessors panic, overflow or hang, for all three parsable instantiations."),
 "C07": ("exploration", "3", "bounded-exhaustive input enumeration (dot-segment and separator lenses); segment oracle computed from the raw input",
   "For every accepted string of the dot-segment/separator lenses the reported namespace and subpath segments are exactly the decoded non-skipped raw pieces; no empty, '.' or '..' subpath segment, no empty namespace segment."),
 "C09": ("model_checking", "3", "explicit-state breadth-first search over builder call histories on the real builder next to a reference record, plus exhaustive product of final states; oracle on every transition and state",
   "Every builder call sequence up to the stated depth over the 19-string value universe (from every new(type,name) and from into_builder() of parsed values), and every final state of the namespace x name x version x subpath x type x qualifier product: public fields equal the reference record after every call, build() succeeds exactly when the reference predicate holds, accessors return what was set, and the string form re-parses to the same fields. String and PackageType."),
 "C10": ("exploration", "3", "bounded-exhaustive input enumeration; rebuild-identity oracle",
   "For every accepted string of the lenses, p.clone().into_builder().build() == Ok(p) with the identical string, for String, SmallString and PackageType."),
 "C03": ("exploration", "3", "exhaustive sweep over all 1,112,064 Unicode scalar values and all ASCII pairs in every component position (builder) plus bounded-exhaustive input enumeration (parser); independent renderer as oracle",
   "to_string() equals an independent renderer (escape table transcribed from the property text) for every scalar value alone and embedded, and every ASCII pair, in each of the five component positions, for the listed type parameters and package types, and for every value the parser returns on the token lenses; output is printable ASCII."),
 "C08": ("exploration", "3", "exhaustive sweep over all Unicode scalar values and all short strings over a name alphabet, both entry points; bounded-exhaustive typed-vs-untyped differential on the token lenses",
   "For every scalar value (as 'c' and 'xcx') and every name up to the bound over {a A 1 - _ . E-acute titlecase-dz}, the seven types apply exactly the documented name rule, identically from parser and builder; maven namespaces without a segment are refused; on every lens node the typed PURL has the namespace/version/qualifiers/subpath of the type-agnostic one and refuses unknown types with UnsupportedType."),
 "C11": ("model_checking", "3", "explicit-state breadth-first search to the fixpoint of reachable contents, real Qualifiers next to a BTreeMap; oracle on every transition; all pairs of reached contents compared",
   "All reachable contents of the key/value universe (4^5 quick, 5^6 thorough) x every public operation of Qualifiers/Entry/OccupiedEntry/VacantEntry/Iter/IterMut and the typed accessors: every return value, iteration order from both ends, len, lookups by every key spelling (including invalid keys and the documented Index panic) agree with the reference map; equal contents are ==, hash alike and compare Equal; different contents order lexicographically."),
 "C12": ("model_checking", "3", "explicit-state breadth-first search to a fixpoint over Checksum insert/insert_raw/remove histories next to a sorted reference map; bounded-exhaustive checksum lens through the parser",
   "All reachable checksum contents over the algorithm/value universe x every insert/insert_raw/remove: entries, get/get_raw/get_value/decode, text form (sorted, lower-case hex, refused iff malformed hex), text->typed round trip, replacement in another letter case; every accepted string of the checksum lens carries the canonical text and reads back through the typed accessor."),
 "C13": ("exploration", "3", "bounded-exhaustive input enumeration; differential oracle across type parameters",
   "Every string of the lenses gives the same acceptance, error text, accessors and canonical string as GenericPurl<String> and GenericPurl<SmallString>."),
 "C14": ("model_checking", "3", "exhaustive enumeration of a parameterised family of PurlShape+FromStr programs (conversion outcome x hook primitive sequences x hook result) x bounded-exhaustive inputs, on the real parser/builder; call log and reference post-processing as oracle",
   "For every program of the family (hook sequences of up to two of 15 primitives; conversion/hook succeeding or failing with one of two errors) and every input of the macro-separator lens plus 72 builder states: the conversion is called at most once, only with the valid type substring as written; the hook exactly once per build(), never before a successful conversion; errors come back unchanged; the result equals reference pre-hook parts -> hook primitives -> generic checks (empty name refused, empty qualifiers removed, checksum canonicalised or refused), in accessors and in to_string()."),
 "C15": ("exploration", "3", "exhaustive enumeration of case variants, short strings over the name letters plus look-alikes, and every scalar value substituted/inserted at every position of every name",
   "PackageType::from_str accepts exactly the ASCII case variants of the seven names: all 2^len variants accepted, and no other string of the enumerated families (short strings with look-alikes, one scalar inserted/substituted anywhere, deletions, transpositions, paddings, other spec type names) is accepted; name(), Display, AsRef, From, package_type(), the formatted type segment and serde agree."),
 "C16": ("exploration", "3", "bounded-exhaustive input enumeration (token lenses, deviation-bounded spellings, single faults) in a serde-enabled build; from_str/to_string as oracle",
   "For every string of the lenses, every spelling and every single-fault string: three deserialisation routes succeed exactly when from_str does (equal value, same error text), serialisation is exactly the canonical string as one JSON string, the JSON round trip is the identity, and eight non-string JSON shapes around each accepted PURL are refused; GenericPurl<String> and Purl."),
 "C17": ("exploration", "3", "the same deterministic bounded-exhaustive input stream executed by four builds of the harness (one per feature set); per-chunk transcript digests compared, first differing input localised",
   "Identical outcome lines (error text, or type/accessors/canonical string) for every input of the stream under {default}, {package-type}, {} and {default,serde}: generic API in all four builds, typed API in the three that have it."),
 "C18": ("exploration", "3", "exhaustive enumeration of all short combined names over a separator alphabet and all scalar values, for all seven types; inverse direction on every typed value of the lenses",
   "builder_with_combined_name splits exactly like the reference split for every string up to the bound over {a B / : . @ e-acute} and every scalar value, and combined_name() fed back reproduces namespace and name for every typed PURL of the lenses that satisfies the side condition."),
 "C19": ("exploration", "3", "exhaustive all-pairs comparison over pools of values enumerated by the lenses and the builder product",
   "On pools of parser- and builder-produced values (String, SmallString, Cow, PackageType) every pair satisfies: == iff canonical strings equal; equal => equal hashes; cmp Equal iff ==; cmp antisymmetric; the pool sorted by cmp has s[i] <= s[j] for all i<j (total preorder); hash-set and ordered-set de-duplication agree with de-duplication by string; QualifierKey's hand-written comparisons agree with the derived ones."),
}

NOT_YET = "check not built yet (construction in progress, DESIGN.md 8a); will be claimed once its explorer exists"

def main():
    checks = []
    LADDER = {"C01","C02","C03","C04","C05","C06","C07","C08","C10","C12","C13","C16","C17","C18"}
    HIST = {"C01": "held values re-parsed", "C02": "parse operations", "C03": "formatting into a sink that fails after every number of bytes; held values", "C08": "typed parses and builds",
            "C09": "build operations incl. parse-back", "C10": "held values re-built", "C11": "try_from_iter", "C12": "checksum texts and typed checksums", "C15": "PackageType::from_str",
            "C16": "serde in both directions for both PURL types", "C18": "combined-name builds"}
    for pid in sorted(CHECKS):
        cat, ref, tech, text = CHECKS[pid]
        if pid in LADDER:
            tech += "; size ladders (every component length and every element count up to a bound)"
            text += " Also every string of the size ladder A11 (every length 0..300 of every component, every count 0..80 of qualifiers / checksum entries / segments; larger in the thorough tier)."
        if pid in ("C09", "C11"):
            tech += "; size ladders through the API (every collection size x every position x every operation kind)"
        if pid in HIST:
            tech += "; exhaustive exploration of operation sequences over independent objects (every operation directly after every other operation, depth 2 and 3, against the outcome alone in a fresh thread)"
            text += f" History independence (Engine H, judged: {HIST[pid]}): over an alphabet of about 3200 operations, which includes every kind of refused call, the outcome of an operation on fresh arguments is the same alone and after every other operation (all pairs; triples over a sub-alphabet)."
        checks.append({
            "property_id": pid,
            "quick_cmd": f"./check {pid} --tier quick",
            "thorough_cmd": f"./check {pid} --tier thorough",
            "evidence_file": f"/verif/evidence/{pid}.json",
            "replay_cmd_template": f"./check {pid} --replay {{path}}",
            "engine": "purl-verif",
            "level_claimed": {"category": cat, "text": text, "design_ref": f"DESIGN.md section 5/{pid}, section {ref}"},
            "level_note": TRUST,
            "technique": tech,
        })
    ids = [f"C{i:02d}" for i in range(1, 20)]
    hooks_commits = ["562e966"]
    m = {
        "version": 1,
        "setup_cmd": "./check buildall && ./check selftest",
        "hooks": {
            "guard": "purl_verif",
            "enable": "RUSTFLAGS=\"--cfg purl_verif\" with CARGO_TARGET_DIR=/verif/target/on (done by ./check C12, the only check that needs the hook: scripted hasher for Checksum's map); a rustc cfg, not a cargo feature",
            "baseline_off_cmd": "cd /repo && cargo test --workspace --no-fail-fast --offline",
            "source_commits": hooks_commits,
            "add_only": True,
        },
        "engines": [
            {"name": "purl-verif", "path": "/verif/harness", "serves_properties": sorted(CHECKS),
             "kind_free_text": "Rust harness linked against /repo/purl: token-language explorer (Engine A), deviation-bounded spelling and fault explorer (B), explicit-state BFS over API histories and callback programs (C, cross-checked by stateright for C11), hash-order enumeration through the purl_verif hook (D), scalar / short-string sweeps and size ladders (E), operation-sequence exploration over independent objects (H); reference model and value monitors"},
        ],
        "checks": checks,
        "notes": "All checks are deterministic bounded-exhaustive explorations of the real code; see DESIGN.md. known_findings.json lists genuine defects (all repaired by fix: commits).",
        "not_applicable": [{"property_id": i, "reason": NOT_YET} for i in ids if i not in CHECKS],
    }
    json.dump(m, open(os.path.join(ROOT, "MANIFEST.json"), "w"), indent=1)
    print("MANIFEST.json written:", len(checks), "checks")

if __name__ == "__main__":
    main()
