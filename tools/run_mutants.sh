#!/bin/bash
# Applies each patch in a directory to /repo's working tree, checks that the repository's own test
# suite still passes, runs the quick checks, records which checks report a violation, restores the tree.
# usage: tools/run_mutants.sh [dir-or-patch ...]      (default: /verif/mutants)
# env: CHECKS="C01 C02 ..." to restrict; SUITE=0 to skip the repository test suite
set -u
ROOT="$(cd "$(dirname "$0")/.." && pwd)"
CHECKS="${CHECKS:-C01 C02 C03 C04 C05 C06 C07 C08 C09 C10 C11 C12 C13 C14 C15 C16 C17 C18 C19}"
OUT="$ROOT/mutants/RESULTS.tsv"
[ $# -eq 0 ] && set -- "$ROOT/mutants"
patches=()
for a in "$@"; do
  if [ -d "$a" ]; then for f in "$a"/*.diff "$a"/*/patch.diff; do [ -f "$f" ] && patches+=("$f"); done; else patches+=("$a"); fi
done
if [ -n "$(git -C /repo status --porcelain)" ]; then echo "refusing: /repo working tree is not clean"; exit 2; fi
for p in "${patches[@]}"; do
  name="$(basename "$p" .diff)"; [ "$name" = patch ] && name="$(basename "$(dirname "$p")")"
  if ! git -C /repo apply "$p" 2>/dev/null; then echo -e "$name\tAPPLY-FAILED"; continue; fi
  suite="skipped"
  if [ "${SUITE:-1}" = 1 ]; then
    if (cd /repo && cargo test --workspace --offline >/tmp/mutant-suite.log 2>&1); then suite="suite-passes"; else suite="SUITE-FAILS"; fi
  fi
  caught=""; quiet=""
  for c in $CHECKS; do
    out="$("$ROOT/check" "$c" --tier quick 2>&1)"; rc=$?
    if [ $rc -eq 1 ] && echo "$out" | grep -q "^VIOLATION property=$c "; then caught="$caught $c"
    elif [ $rc -eq 2 ]; then caught="$caught $c(machinery)"
    else quiet="$quiet $c"; fi
  done
  git -C /repo checkout -- .
  echo -e "$name\t$suite\tcaught:$caught"
  echo -e "$(date +%FT%T)\t$name\t$suite\tcaught:$caught" >> "$OUT"
done
rm -f "$ROOT"/replays/*.json
# restore evidence files to the unchanged tree's by re-running is the caller's business
