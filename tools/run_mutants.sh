#!/bin/bash
# Runs the quick checks against property-breaking patches, on scratch copies of /repo and /verif
# (so that neither /repo nor the evidence files in /verif are touched and work in /verif can go on).
#   tools/run_mutants.sh [dir-or-patch ...]      (default: /verif/mutants /verif/seeded)
# env: CHECKS="C01 C02 ..." to restrict; AIMED_ONLY=1 to run only the aimed-at check per change;
#      RESULTS_FILE=<path> to append elsewhere; SUITE=0 to skip the repository's own test suite;
#      KEEP=1 to keep the scratch directory.
# For each patch: apply to the scratch repo, run the repository's test suite there (a mutant must
# pass it to count), run the checks, record which checks print a VIOLATION line, restore the tree.
set -u
ROOT="$(cd "$(dirname "$0")/.." && pwd)"
CHECKS="${CHECKS:-C01 C02 C03 C04 C05 C06 C07 C08 C09 C10 C11 C12 C13 C14 C15 C16 C17 C18 C19}"
OUT="${RESULTS_FILE:-$ROOT/mutants/RESULTS.tsv}"
[ $# -eq 0 ] && set -- "$ROOT/mutants" "$ROOT/seeded"
patches=()
for a in "$@"; do
  if [ -d "$a" ]; then for f in "$a"/*.diff "$a"/*/patch.diff; do [ -f "$f" ] && patches+=("$f"); done; else patches+=("$a"); fi
done
S="$(mktemp -d /tmp/pv-mut-XXXXXX)"
trap '[ "${KEEP:-0}" = 1 ] || rm -rf "$S"' EXIT
rsync -a --exclude target /repo/ "$S/repo/"
git -C "$S/repo" checkout -q -- . 2>/dev/null
rsync -a --exclude target --exclude .git --exclude evidence --exclude replays "$ROOT/" "$S/verif/"
sed -i "s#path = \"/repo/purl\"#path = \"$S/repo/purl\"#" "$S/verif/harness/Cargo.toml"
mkdir -p "$S/verif/evidence" "$S/verif/replays"
# baseline: the unchanged tree must be silent
"$S/verif/check" buildall >/dev/null 2>&1 || { echo "scratch build failed"; cat "$S"/verif/target/build-*.log | tail -20; exit 2; }
for p in "${patches[@]}"; do
  name="$(basename "$p" .diff)"; [ "$name" = patch ] && name="$(basename "$(dirname "$p")")"
  if ! git -C "$S/repo" apply "$p" 2>/dev/null; then echo -e "$name\tAPPLY-FAILED"; continue; fi
  suite="skipped"
  if [ "${SUITE:-1}" = 1 ]; then
    if (cd "$S/repo" && cargo test --workspace --offline >"$S/suite.log" 2>&1); then suite="suite-passes"; else suite="SUITE-FAILS"; fi
  fi
  caught=""
  checks="$CHECKS"
  if [ "${AIMED_ONLY:-0}" = 1 ]; then
    # only the check of the property the change was aimed at (C07-b -> C07, m11-... -> C11)
    checks="C$(echo "$name" | sed -E 's/^[mC]([0-9][0-9]).*/\1/')"
  fi
  for c in $checks; do
    out="$("$S/verif/check" "$c" --tier quick 2>&1)"; rc=$?
    if [ $rc -eq 1 ] && echo "$out" | grep -q "^VIOLATION property=$c "; then caught="$caught $c"
    elif [ $rc -ne 0 ]; then caught="$caught $c(machinery:$rc)"; fi
  done
  git -C "$S/repo" checkout -q -- .
  echo -e "$name\t$suite\tcaught:$caught"
  echo -e "$(date +%FT%T)\t$(git -C "$ROOT" rev-parse --short HEAD)\t$name\t$suite\tcaught:$caught" >> "$OUT"
done
