#!/bin/bash
# tools/merge_aimed.sh <tsv> ...   appends the lines of aimed-only runs (tools/run_mutants.sh with AIMED_ONLY=1)
# to mutants/RESULTS.tsv, marking them so that tools/detection_table.py labels them, then regenerates DETECTION.md.
set -u
ROOT="$(cd "$(dirname "$0")/.." && pwd)"
for f in "$@"; do
  [ -f "$f" ] || continue
  awk -F'\t' 'BEGIN{OFS="\t"} NF>=5 { if ($4=="skipped") $4="aimed-only-run"; print }' "$f" >> "$ROOT/mutants/RESULTS.tsv"
done
python3 "$ROOT/tools/detection_table.py"
