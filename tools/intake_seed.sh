#!/bin/bash
# tools/intake_seed.sh <name> <dir-with-SEED>   e.g.  tools/intake_seed.sh C05-a /tmp/seed-C05
# Confirms, in a fresh scratch worktree of /repo (removed afterwards), that the seeded change
#  (1) applies to /repo's HEAD and compiles, (2) leaves the repository's own test suite passing,
#  (3) makes the demonstration test fail, and (4) the demonstration passes without it.
# On success copies patch.diff, the demonstration and notes into /verif/seeded/<name>/ with meta.json.
set -u
ROOT="$(cd "$(dirname "$0")/.." && pwd)"
name="$1"; src="$2/SEED"
[ -f "$src/patch.diff" ] && [ -f "$src/seed_demo.rs" ] || { echo "$name: SEED incomplete"; exit 2; }
W="$(mktemp -d /tmp/pv-intake-XXXXXX)"; rmdir "$W"
git -C /repo worktree add -q --detach "$W" HEAD || exit 2
cleanup() { git -C /repo worktree remove --force "$W" 2>/dev/null; rm -rf "$W"; }
trap cleanup EXIT
feat="${FEATURES:-}"
cp "$src/seed_demo.rs" "$W/purl/tests_seed_demo.rs.tmp"
mkdir -p "$W/purl/tests"
# 4: demo passes without the change
cp "$src/seed_demo.rs" "$W/purl/tests/seed_demo.rs"
( cd "$W" && cargo test --offline -p purl $feat --test seed_demo >"$W/demo-clean.log" 2>&1 ); demo_clean=$?
if ! git -C "$W" apply "$src/patch.diff" 2>"$W/apply.log"; then echo "$name: patch does not apply to HEAD"; cat "$W/apply.log"; exit 1; fi
# 3: demo fails with the change
( cd "$W" && cargo test --offline -p purl $feat --test seed_demo >"$W/demo-mut.log" 2>&1 ); demo_mut=$?
# 2: suite passes with the change (demo moved aside)
mv "$W/purl/tests/seed_demo.rs" "$W/seed_demo.rs.aside"
( cd "$W" && cargo test --workspace --no-fail-fast --offline >"$W/suite.log" 2>&1 ); suite=$?
passed=$(grep -E "^test result: ok" "$W/suite.log" | sed -E 's/.* ([0-9]+) passed.*/\1/' | paste -sd+ | bc)
echo "$name: demo_without_change_exit=$demo_clean demo_with_change_exit=$demo_mut suite_exit=$suite suite_passed=$passed"
if [ $demo_clean -eq 0 ] && [ $demo_mut -ne 0 ] && [ $suite -eq 0 ]; then
  d="$ROOT/seeded/$name"; mkdir -p "$d"
  cp "$src/patch.diff" "$d/patch.diff"; cp "$src/seed_demo.rs" "$d/seed_demo.rs"; [ -f "$src/notes.md" ] && cp "$src/notes.md" "$d/notes.md"
  python3 - "$d" "$name" "$passed" "$feat" <<'PY'
import json,sys,re,os
d,name,passed,feat=sys.argv[1:5]
meta_path=os.path.join(d,'meta.json')
meta=json.load(open(meta_path)) if os.path.exists(meta_path) else {}
meta.update({"id":name,"breaks_property":re.match(r'(C\d+)',name).group(1),
 "source":"independent sub-agent given only the property text and a scratch worktree",
 "confirmed":{"applies_to_repo_head":True,"repository_suite_with_change":f"passes ({passed} tests incl. doctests)",
   "demonstration_with_change":"fails","demonstration_without_change":"passes",
   "commands":[f"cargo test --offline -p purl {feat} --test seed_demo (clean worktree of /repo HEAD): pass",
               "git apply patch.diff",f"cargo test --offline -p purl {feat} --test seed_demo: FAIL",
               "cargo test --workspace --no-fail-fast --offline (demo moved aside): pass"]}})
json.dump(meta,open(meta_path,'w'),indent=1)
PY
  echo "$name: kept in $d"
else
  echo "$name: NOT kept"; tail -5 "$W/demo-clean.log"; tail -5 "$W/demo-mut.log"; grep -E "FAILED|failed|error" "$W/suite.log" | head -5
  exit 1
fi
