//! C09 — the builder against a plain record; also the source of builder-produced values for
//! C03/C04/C06/C10.

use std::collections::BTreeMap;

use purl::qualifiers::well_known::{Checksum, RepositoryUrl};
use purl::{GenericPurl, GenericPurlBuilder};
use serde_json::{json, Value};

use crate::common::*;
use crate::lens;
use crate::monitors::*;
use crate::refmodel as R;
use crate::xstate::Model;

#[derive(Clone, Debug, PartialEq, Eq, Default)]
pub struct RefBuilder {
    pub ty: String,
    pub ns: String,
    pub name: String,
    pub version: String,
    pub quals: BTreeMap<String, String>,
    pub subpath: String,
}

pub trait BFlavor: PFlavor + Send + Sync + 'static {
    const MODEL: &'static str;
    fn type_universe() -> Vec<String>;
    fn make(s: &str) -> Self;
    fn default_builder() -> Option<GenericPurlBuilder<Self>> {
        None
    }
    /// the type string as the builder holds it (before build() normalises it)
    fn raw(&self) -> String;
}

impl BFlavor for String {
    fn default_builder() -> Option<GenericPurlBuilder<Self>> {
        Some(GenericPurlBuilder::default())
    }
    const MODEL: &'static str = "builder-bfs";
    fn type_universe() -> Vec<String> {
        ["t", "T.1+x-", "", "!", "é"].iter().map(|s| s.to_string()).collect()
    }
    fn make(s: &str) -> Self {
        s.to_owned()
    }
    fn raw(&self) -> String {
        self.clone()
    }
}

#[cfg(feature = "typed")]
impl BFlavor for purl::PackageType {
    const MODEL: &'static str = "builder-typed-bfs";
    fn type_universe() -> Vec<String> {
        R::KNOWN_TYPES.iter().map(|s| s.to_string()).collect()
    }
    fn make(s: &str) -> Self {
        <purl::PackageType as Flavor>::mk(s).expect("known type")
    }
    fn raw(&self) -> String {
        self.name().to_owned()
    }
}

pub const UNIVERSE: [&str; 19] = ["", "a", "B", "/", "a/b", "/a//b/", ".", "../x", "a@b", "a?b#c", "a&b=c", "%41", "100%", " ", "é", "\u{1}", "+", "A--b", "a/.../b"];
pub const QVALUES: [&str; 6] = ["", "a", "a&b=c", "%41", "é", " +"];
// (well-formed, non-canonical, odd hex, no colon, empty, and lists with an empty piece: trailing / leading / doubled comma)
pub const CVALUES: [&str; 8] = ["a:00", "B:ff,a:0A", "a:0", "zz", "", "a:00,", ",a:00", "a:00,,b:11"];

#[derive(Clone, Debug, PartialEq)]
pub enum BAct {
    Type(String),
    Ns(String),
    NoNs,
    Name(String),
    Version(String),
    NoVersion,
    Subpath(String),
    NoSubpath,
    Qual(String, String),
    NoQual(String),
    NoQuals,
    TypedRepo(Option<String>),
    /// a user-defined typed qualifier with a mixed-case KEY
    TypedCustom(Option<String>),
    TypedChecksum(Option<String>),
    PartsName(String),
    PartsQual(String, String),
    PartsNs(String),
    /// parts.qualifiers.entry(k) -> Occupied -> remove()
    PartsEntryRemove(String),
    /// parts.qualifiers.retain(non-empty values)
    PartsRetainNonEmpty,
    /// build() and, if it succeeds, into_builder(): the history continues from the normalised value
    Rebuild,
    /// build(), to_string(), from_str(), into_builder(): the history continues from the re-parsed value
    Reparse,
    /// parts.qualifiers.iter_mut(): write the value of the first / last pair
    PartsIterMutWrite(bool, String),
    /// parts.qualifiers.get_mut(k) = v (no effect when absent)
    PartsGetMutWrite(String, String),
}

pub struct BState<T: BFlavor> {
    pub real: GenericPurlBuilder<T>,
    pub refb: RefBuilder,
}
impl<T: BFlavor> Clone for BState<T> {
    fn clone(&self) -> Self {
        BState { real: self.real.clone(), refb: self.refb.clone() }
    }
}

pub struct BModel<T: BFlavor> {
    pub prop: &'static str,
    pub mon: u32,
    pub acts: Vec<BAct>,
    pub parsed_inits: usize,
    /// the reduced ("sharp") instance: fewer actions and initial states, explored deeper
    pub sharp: bool,
    _t: std::marker::PhantomData<T>,
}

pub fn significant(s: &str, subpath: bool) -> Option<String> {
    let segs: Vec<&str> = s.split('/').filter(|x| !x.is_empty() && !(subpath && (*x == "." || *x == ".."))).collect();
    if segs.is_empty() {
        None
    } else {
        Some(segs.join("/"))
    }
}

fn real_fields<T: BFlavor>(b: &GenericPurlBuilder<T>) -> RefBuilder {
    RefBuilder {
        ty: b.package_type.raw(),
        ns: b.parts.namespace.to_string(),
        name: b.parts.name.to_string(),
        version: b.parts.version.to_string(),
        quals: b.parts.qualifiers.iter().map(|(k, v)| (k.as_str().to_owned(), v.to_owned())).collect(),
        subpath: b.parts.subpath.to_string(),
    }
}

/// The per-state oracle of C09: build a clone, compare with the reference predicate and values,
/// re-parse the string form. Also runs the value monitors selected by `mon`.
pub fn check_build<T: BFlavor>(prop: &'static str, mon: u32, b: &GenericPurlBuilder<T>, r: &RefBuilder, trace: &dyn Fn() -> Value, acc: &mut Acc) {
    acc.calls += 1;
    let type_ok = T::TYPED || R::valid_type(&r.ty);
    let lty = r.ty.to_ascii_lowercase();
    let maven_ok = !(T::TYPED && lty == "maven") || significant(&r.ns, false).is_some();
    let name_ok = !r.name.is_empty();
    let cks = r.quals.get("checksum").filter(|v| !v.is_empty());
    let cks_canon = cks.map(|c| R::checksum_canonical(c));
    let cks_ok = !matches!(cks_canon, Some(None));
    let mut classes: Vec<ErrClass> = Vec::new();
    if !type_ok {
        classes.push(ErrClass::BadType);
    }
    if !maven_ok {
        classes.push(ErrClass::NoNamespace);
    }
    if !name_ok {
        classes.push(ErrClass::NoName);
    }
    if !cks_ok {
        classes.push(ErrClass::Qualifier);
    }
    let verdict = prop == "C09";
    macro_rules! bad {
        ($kind:expr, $($arg:tt)*) => { if verdict { acc.violate(Violation { prop: "C09", kind: $kind.into(), case: trace(), detail: format!($($arg)*) }) } };
    }
    match b.clone().build() {
        Err(e) => {
            acc.rejected += 1;
            let c = T::classify(&e);
            acc.sig(&("err", c));
            if classes.is_empty() {
                bad!("build-refuses", "build() fails with {:?} although name, type, rule and checksum are fine: {:?}", T::err_text(&e), r);
            } else if classes.len() == 1 && c != classes[0] {
                // C09 says when build() fails, not with which error (C05/C08/C14 do): diagnostic only
                acc.count("build_error_class_differs_from_expected");
            }
        },
        Ok(p) => {
            acc.accepted += 1;
            if !classes.is_empty() {
                let note = if !maven_ok { " [maven namespace without a non-empty segment]" } else { "" };
                bad!("build-accepts", "build() succeeds although it must fail with {:?}: {:?}{}", classes.iter().map(|c| c.name()).collect::<Vec<_>>(), r, note);
            }
            let o = observe(&p);
            acc.sig(&("ok", o.ns.is_some(), o.version.is_some(), o.quals.len().min(3), o.subpath.is_some(), significant(&r.ns, false) == o.ns, significant(&r.subpath, true) == o.subpath));
            // accessors return what was last set
            let mut want_quals: Vec<(String, String)> = r.quals.iter().filter(|(_, v)| !v.is_empty()).map(|(k, v)| (k.clone(), v.clone())).collect();
            if let Some(Some(c)) = &cks_canon {
                for (k, v) in want_quals.iter_mut() {
                    if k == "checksum" {
                        *v = c.clone();
                    }
                }
            }
            let want_name = if T::TYPED { R::name_rule(&lty, &r.name) } else { r.name.clone() };
            let opt = |s: &str| if s.is_empty() { None } else { Some(s.to_owned()) };
            if o.ty != lty {
                bad!("field-type", "type {:?}, set {:?}", o.ty, r.ty);
            }
            if o.name != want_name {
                bad!("field-name", "name {:?}, expected {:?}", o.name, want_name);
            }
            if o.version != opt(&r.version) {
                bad!("field-version", "version {:?}, set {:?}", o.version, r.version);
            }
            if o.quals != want_quals {
                bad!("field-qualifiers", "qualifiers {:?}, expected {:?}", o.quals, want_quals);
            }
            if o.ns.as_deref().and_then(|n| significant(n, false)) != significant(&r.ns, false) {
                bad!("field-namespace", "namespace {:?}, set {:?}", o.ns, r.ns);
            }
            if o.subpath.as_deref().and_then(|n| significant(n, true)) != significant(&r.subpath, true) {
                bad!("field-subpath", "subpath {:?}, set {:?}", o.subpath, r.subpath);
            }
            // the string form is accepted and yields the same field values
            acc.calls += 2;
            let text = p.to_string();
            let amp = if o.quals.iter().any(|(_, v)| v.contains('&')) { " [qualifier value contains '&']" } else { "" };
            match T::parse(&text) {
                Err(e) => {
                    let note = if T::TYPED && o.ty == "maven" && o.ns.as_deref().and_then(|n| significant(n, false)).is_none() { " [maven namespace without a non-empty segment]" } else { "" };
                    bad!("builder-reparse-refused", "to_string() = {:?} is refused by the parser: {}{}{}", text, T::err_text(&e), amp, note);
                },
                Ok(p2) => {
                    let o2 = observe(&p2);
                    if o2.ty != o.ty || o2.name != o.name || o2.version != o.version || o2.quals != o.quals {
                        bad!("builder-reparse-fields", "to_string() = {:?} parses to {:?}, built {:?}{}", text, o2, o, amp);
                    }
                    if o2.ns != o.ns.as_deref().and_then(|n| significant(n, false)) {
                        bad!("builder-reparse-namespace", "to_string() = {:?} parses to namespace {:?}, built {:?}", text, o2.ns, o.ns);
                    }
                    if o2.subpath != o.subpath.as_deref().and_then(|n| significant(n, true)) {
                        bad!("builder-reparse-subpath", "to_string() = {:?} parses to subpath {:?}, built {:?}", text, o2.subpath, o.subpath);
                    }
                },
            }
            let case = trace();
            if mon & M03 != 0 {
                m03(&p, &case, acc);
            }
            if mon & M04 != 0 {
                m04(&p, true, &case, acc);
            }
            if mon & M10 != 0 {
                m10(&p, &case, acc);
            }
            if mon & M12 != 0 {
                m12(&p, &case, acc);
            }
            if mon & M06 != 0 {
                let _ = format!("{:?}", p);
                let _ = p.clone().into_builder().build();
            }
        },
    }
}

impl<T: BFlavor> BModel<T> {
    pub fn new(prop: &'static str, mon: u32, parsed_inits: usize) -> Self {
        let mut acts = Vec::new();
        for t in T::type_universe() {
            acts.push(BAct::Type(t));
        }
        for u in UNIVERSE {
            acts.push(BAct::Ns(u.to_owned()));
            acts.push(BAct::Name(u.to_owned()));
            acts.push(BAct::Version(u.to_owned()));
            acts.push(BAct::Subpath(u.to_owned()));
        }
        acts.extend([BAct::NoNs, BAct::NoVersion, BAct::NoSubpath, BAct::NoQuals]);
        for k in ["k", "K"] {
            for v in QVALUES {
                acts.push(BAct::Qual(k.to_owned(), v.to_owned()));
            }
        }
        for v in CVALUES {
            acts.push(BAct::Qual("checksum".to_owned(), v.to_owned()));
        }
        acts.push(BAct::Qual("CheckSum".to_owned(), "a:00".to_owned()));
        // two keys that order differently under another case folding ('_' sorts between the upper-case
        // and the lower-case letters), set and removed in either letter case
        acts.push(BAct::Qual("k_".to_owned(), "1".to_owned()));
        acts.push(BAct::Qual("KZ".to_owned(), "2".to_owned()));
        acts.push(BAct::Qual("kz".to_owned(), "3".to_owned()));
        acts.push(BAct::Qual("K_".to_owned(), "4".to_owned()));
        acts.push(BAct::NoQual("K_".to_owned()));
        acts.push(BAct::NoQual("kZ".to_owned()));
        acts.push(BAct::Qual("".to_owned(), "a".to_owned()));
        acts.push(BAct::Qual("!".to_owned(), "a".to_owned()));
        for k in ["k", "K", "checksum", "", "l"] {
            acts.push(BAct::NoQual(k.to_owned()));
        }
        for v in [Some("a"), Some(""), Some("x?y&z"), None] {
            acts.push(BAct::TypedRepo(v.map(str::to_owned)));
        }
        // values from the specification's vocabulary (default registries of the known types)
        for v in ["https://registry.npmjs.org", "https://repo.maven.apache.org/maven2", "https://pypi.org", "https://crates.io/", "https://rubygems.org", "https://www.nuget.org"] {
            acts.push(BAct::TypedRepo(Some(v.to_owned())));
            acts.push(BAct::Qual("repository_url".to_owned(), v.to_owned()));
        }
        // the qualifier vocabulary of the known types with the values the specification calls defaults
        for (k, v) in [("type", "jar"), ("type", "pom"), ("classifier", ""), ("classifier", "sources"), ("platform", "ruby"), ("arch", "")] {
            acts.push(BAct::Qual(k.to_owned(), v.to_owned()));
        }
        // two ordinary keys that sort before `checksum` (so that a checksum is the LAST of three and an
        // earlier one can be removed again)
        acts.push(BAct::Qual("arch".to_owned(), "x86".to_owned()));
        acts.push(BAct::Qual("bits".to_owned(), "64".to_owned()));
        acts.push(BAct::NoQual("arch".to_owned()));
        acts.push(BAct::NoQual("BITS".to_owned()));
        acts.push(BAct::TypedCustom(Some("x".to_owned())));
        acts.push(BAct::TypedCustom(None));
        acts.push(BAct::NoQual("BUILD_TAG".to_owned()));
        for v in [Some("a:00"), Some("B:ff,a:0A"), Some("a:0"), Some("zz"), Some("<default>"), Some("<inserted-empty-bytes>"), None] {
            acts.push(BAct::TypedChecksum(v.map(str::to_owned)));
        }
        acts.push(BAct::PartsName("".to_owned()));
        acts.push(BAct::PartsName("p/q".to_owned()));
        acts.push(BAct::PartsNs("x//y".to_owned()));
        acts.push(BAct::PartsQual("L".to_owned(), "".to_owned()));
        acts.push(BAct::PartsQual("l".to_owned(), "v".to_owned()));
        for k in ["a", "K", "b"] {
            acts.push(BAct::PartsEntryRemove(k.to_owned()));
        }
        acts.push(BAct::NoQual("a".to_owned()));
        acts.push(BAct::NoQual("B".to_owned()));
        acts.push(BAct::PartsRetainNonEmpty);
        acts.push(BAct::Rebuild);
        acts.push(BAct::Reparse);
        acts.push(BAct::PartsIterMutWrite(true, "".to_owned()));
        acts.push(BAct::PartsIterMutWrite(false, "w".to_owned()));
        acts.push(BAct::PartsGetMutWrite("K".to_owned(), "".to_owned()));
        acts.push(BAct::PartsGetMutWrite("checksum".to_owned(), "B:ff,a:0A".to_owned()));
        BModel { prop, mon, acts, parsed_inits, sharp: false, _t: std::marker::PhantomData }
    }

    /// The reduced instance for deeper histories: one action of each kind that touches shared state
    /// (qualifier list edits through every route, checksum, cross-field setters, re-build / re-parse in
    /// the middle of a history), a handful of initial states.
    pub fn new_sharp(prop: &'static str, mon: u32) -> Self {
        let full = Self::new(prop, mon, 0);
        let ty = T::type_universe();
        let q = |k: &str, v: &str| BAct::Qual(k.to_owned(), v.to_owned());
        let want: Vec<BAct> = vec![
            BAct::Type(ty[1 % ty.len()].clone()),
            BAct::Ns("a/b".into()),
            BAct::NoNs,
            BAct::Name("A--b".into()),
            BAct::Name("".into()),
            BAct::Version("a?b#c".into()),
            BAct::NoVersion,
            BAct::Subpath("../x".into()),
            q("k", "a"),
            q("K", ""),
            q("k", "a&b=c"),
            q("checksum", "B:ff,a:0A"),
            q("checksum", "zz"),
            q("CheckSum", "a:00"),
            q("type", "jar"),
            q("classifier", ""),
            q("arch", "x86"),
            q("bits", "64"),
            BAct::NoQual("arch".into()),
            q("repository_url", "https://repo.maven.apache.org/maven2"),
            q("k_", "1"),
            q("KZ", "2"),
            q("kz", "3"),
            BAct::NoQual("K_".into()),
            BAct::NoQual("K".into()),
            BAct::NoQual("checksum".into()),
            BAct::NoQuals,
            BAct::TypedRepo(Some("a".into())),
            BAct::TypedRepo(None),
            BAct::TypedCustom(Some("x".into())),
            BAct::TypedChecksum(Some("B:ff,a:0A".into())),
            BAct::TypedChecksum(Some("<default>".into())),
            BAct::TypedChecksum(None),
            BAct::PartsQual("L".into(), "".into()),
            BAct::PartsQual("l".into(), "v".into()),
            BAct::PartsEntryRemove("K".into()),
            BAct::PartsEntryRemove("b".into()),
            BAct::PartsRetainNonEmpty,
            BAct::PartsIterMutWrite(true, "".into()),
            BAct::PartsGetMutWrite("checksum".into(), "B:ff,a:0A".into()),
            BAct::Rebuild,
            BAct::Reparse,
        ];
        for w in &want {
            assert!(full.acts.contains(w), "sharp action {:?} is not an action of the full model", w);
        }
        BModel { prop, mon, acts: want, parsed_inits: 0, sharp: true, _t: std::marker::PhantomData }
    }
}

impl<T: BFlavor> Model for BModel<T> {
    type State = BState<T>;
    type Action = BAct;

    fn name(&self) -> &'static str {
        T::MODEL
    }

    fn inits(&self, _acc: &mut Acc) -> Vec<(Value, BState<T>)> {
        let mut out = Vec::new();
        for t in T::type_universe() {
            for n in UNIVERSE {
                let real = GenericPurlBuilder::new(T::make(&t), n);
                let refb = RefBuilder { ty: t.clone(), name: n.to_owned(), ..Default::default() };
                if self.sharp && !(n == "a" && (t == T::type_universe()[0] || t.eq_ignore_ascii_case("pypi") || t.eq_ignore_ascii_case("maven"))) {
                    continue;
                }
                out.push((json!({"new": [t, n]}), BState { real, refb }));
            }
        }
        // the Default builder (empty type string, empty name), where the type parameter has one
        if !T::TYPED && !self.sharp {
            if let Some(b) = T::default_builder() {
                out.push((json!("default()"), BState { real: b, refb: RefBuilder::default() }));
            }
        }
        // builders that already hold several qualifiers (so that one removal / one retain acts on the
        // middle of a longer list), some of them empty-valued and adjacent
        for (label, quals) in [
            ("four", vec![("a", "1"), ("b", "2"), ("c", "3"), ("d", "4")]),
            ("five-with-checksum", vec![("a", "1"), ("b", "2"), ("checksum", "a:00"), ("k", "v"), ("z", "9")]),
            ("adjacent-empties", vec![("a", ""), ("b", ""), ("c", "3"), ("d", "")]),
        ] {
            for t in T::type_universe().into_iter().take(if self.sharp { 1 } else { 2 }) {
                let mut real = GenericPurlBuilder::new(T::make(&t), "n").with_namespace("g");
                let mut refb = RefBuilder { ty: t.clone(), ns: "g".into(), name: "n".into(), ..Default::default() };
                for (k, v) in &quals {
                    real = real.with_qualifier(*k, *v).expect("valid key");
                    refb.quals.insert((*k).to_owned(), (*v).to_owned());
                }
                out.push((json!({"with_qualifiers": [label, t]}), BState { real, refb }));
            }
        }
        // qualifiers constructed with try_from_iter from pairs in zig-zag key order, put into a builder
        for (label, pairs) in [
            ("zigzag4", vec![("b", "2"), ("d", "4"), ("a", "1"), ("c", "3")]),
            ("zigzag3", vec![("vcs_url", "x"), ("download_url", "y"), ("file_name", "z")]),
        ] {
            if let Ok(q) = purl::Qualifiers::try_from_iter(pairs.iter().copied()) {
                let t = T::type_universe().into_iter().next().unwrap();
                let mut real = GenericPurlBuilder::new(T::make(&t), "n").with_namespace("g");
                real.parts.qualifiers = q;
                let mut refb = RefBuilder { ty: t.clone(), ns: "g".into(), name: "n".into(), ..Default::default() };
                for (k, v) in &pairs {
                    refb.quals.insert((*k).to_owned(), (*v).to_owned());
                }
                out.push((json!({"try_from_iter": label}), BState { real, refb }));
            }
        }
        // non-initial states: into_builder() of parsed values
        if self.parsed_inits > 0 {
            let l = lens::lens("A1b");
            let prefixes: Vec<&str> = if T::TYPED { vec!["pkg:npm/", "pkg:maven/g/", "pkg:PyPI/"] } else { vec!["pkg:t/", "pkg:T.1/"] };
            for prefix in prefixes {
                let mut stack: Vec<(String, usize)> = vec![(prefix.to_owned(), 0)];
                while let Some((s, d)) = stack.pop() {
                    if let Ok(p) = T::parse(&s) {
                        let o = observe(&p);
                        let refb = RefBuilder {
                            ty: o.ty.clone(),
                            ns: o.ns.clone().unwrap_or_default(),
                            name: o.name.clone(),
                            version: o.version.clone().unwrap_or_default(),
                            quals: o.quals.iter().cloned().collect(),
                            subpath: o.subpath.clone().unwrap_or_default(),
                        };
                        out.push((json!({"parsed": s}), BState { real: p.into_builder(), refb }));
                    }
                    if d < self.parsed_inits {
                        for t in l.alphabet.iter().rev() {
                            stack.push((format!("{s}{t}"), d + 1));
                        }
                    }
                }
            }
        }
        out
    }

    fn actions(&self) -> &[BAct] {
        &self.acts
    }

    fn action_json(&self, a: &BAct) -> Value {
        json!(format!("{:?}", a))
    }

    fn key(&self, s: &BState<T>) -> String {
        // the Debug form of the real builder is part of the key: anything the implementation keeps
        // besides the public fields makes a different state, whose futures are explored too
        format!("{:?}|{:?}|{:?}", s.refb, real_fields(&s.real), s.real)
    }

    fn step(&self, s: &BState<T>, a: &BAct, trace: &dyn Fn() -> Value, acc: &mut Acc) -> BState<T> {
        let b = s.real.clone();
        let mut r = s.refb.clone();
        acc.calls += 1;
        let verdict = self.prop == "C09";
        let nb: GenericPurlBuilder<T> = match a {
            BAct::Type(t) => {
                r.ty = t.clone();
                b.with_package_type(T::make(t))
            },
            BAct::Ns(u) => {
                r.ns = u.clone();
                b.with_namespace(u.as_str())
            },
            BAct::NoNs => {
                r.ns.clear();
                b.without_namespace()
            },
            BAct::Name(u) => {
                r.name = u.clone();
                b.with_name(u.as_str())
            },
            BAct::Version(u) => {
                r.version = u.clone();
                b.with_version(u.as_str())
            },
            BAct::NoVersion => {
                r.version.clear();
                b.without_version()
            },
            BAct::Subpath(u) => {
                r.subpath = u.clone();
                b.with_subpath(u.as_str())
            },
            BAct::NoSubpath => {
                r.subpath.clear();
                b.without_subpath()
            },
            BAct::Qual(k, v) => match b.with_qualifier(k.as_str(), v.as_str()) {
                Ok(nb) => {
                    if !R::valid_key(k) && verdict {
                        acc.violate(Violation { prop: "C09", kind: "with_qualifier-accepts".into(), case: trace(), detail: format!("with_qualifier({:?}) accepted an invalid key", k) });
                    }
                    r.quals.insert(k.to_ascii_lowercase(), v.clone());
                    nb
                },
                Err(_) => {
                    if R::valid_key(k) && verdict {
                        acc.violate(Violation { prop: "C09", kind: "with_qualifier-refuses".into(), case: trace(), detail: format!("with_qualifier({:?}) refused a valid key", k) });
                    }
                    // the builder is consumed by the failed call; the history continues from the previous state
                    return s.clone();
                },
            },
            BAct::NoQual(k) => {
                if R::valid_key(k) {
                    r.quals.remove(&k.to_ascii_lowercase());
                }
                b.without_qualifier(k.as_str())
            },
            BAct::NoQuals => {
                r.quals.clear();
                b.without_qualifiers()
            },
            BAct::TypedRepo(v) => match v {
                Some(v) => {
                    let v: &'static str = crate::builders::intern(v);
                    r.quals.insert("repository_url".into(), v.to_owned());
                    b.with_typed_qualifier(Some(RepositoryUrl::from(v)))
                },
                None => {
                    r.quals.remove("repository_url");
                    b.with_typed_qualifier(None::<RepositoryUrl>)
                },
            },
            BAct::TypedCustom(v) => match v {
                Some(v) => {
                    let v: &'static str = crate::builders::intern(v);
                    r.quals.insert("build_tag".into(), v.to_owned());
                    b.with_typed_qualifier(Some(BuildTag(v)))
                },
                None => {
                    r.quals.remove("build_tag");
                    b.with_typed_qualifier(None::<BuildTag>)
                },
            },
            BAct::TypedChecksum(v) => match v {
                None => {
                    r.quals.remove("checksum");
                    b.try_with_typed_qualifier(None::<Checksum>).unwrap_or_else(|_| s.real.clone())
                },
                Some(text) => {
                    let text: &'static str = crate::builders::intern(text);
                    let (cs, canon): (Option<Checksum<'static>>, Option<String>) = match text {
                        "<default>" => (Some(Checksum::default()), Some(String::new())),
                        "<inserted-empty-bytes>" => {
                            let mut c = Checksum::default();
                            c.insert("E", Vec::<u8>::new());
                            (Some(c), Some("e:".to_owned()))
                        },
                        t => (Checksum::try_from(t).ok(), R::checksum_canonical(t)),
                    };
                    match cs {
                        None => return s.clone(),
                        Some(c) => match b.try_with_typed_qualifier(Some(c)) {
                            Ok(nb) => {
                                match canon {
                                    Some(c) => {
                                        r.quals.insert("checksum".into(), c);
                                    },
                                    None => {
                                        if verdict {
                                            acc.violate(Violation { prop: "C09", kind: "typed-checksum-accepts".into(), case: trace(), detail: format!("try_with_typed_qualifier accepted malformed checksum {:?}", text) });
                                        }
                                    },
                                }
                                nb
                            },
                            Err(_) => {
                                if canon.is_some() && verdict {
                                    acc.violate(Violation { prop: "C09", kind: "typed-checksum-refuses".into(), case: trace(), detail: format!("try_with_typed_qualifier refused well-formed checksum {:?}", text) });
                                }
                                return s.clone();
                            },
                        },
                    }
                },
            },
            BAct::PartsName(u) => {
                let mut nb = b;
                nb.parts.name = u.as_str().into();
                r.name = u.clone();
                nb
            },
            BAct::PartsNs(u) => {
                let mut nb = b;
                nb.parts.namespace = u.as_str().into();
                r.ns = u.clone();
                nb
            },
            BAct::PartsEntryRemove(k) => {
                let mut nb = b;
                if let Ok(purl::qualifiers::Entry::Occupied(o)) = nb.parts.qualifiers.entry(k.as_str()) {
                    o.remove();
                }
                r.quals.remove(&k.to_ascii_lowercase());
                nb
            },
            BAct::PartsRetainNonEmpty => {
                let mut nb = b;
                nb.parts.qualifiers.retain(|_, v| !v.is_empty());
                r.quals.retain(|_, v| !v.is_empty());
                nb
            },
            BAct::PartsQual(k, v) => {
                let mut nb = b;
                let _ = nb.parts.qualifiers.insert(k.as_str(), v.as_str());
                r.quals.insert(k.to_ascii_lowercase(), v.clone());
                nb
            },
            BAct::PartsIterMutWrite(first, w) => {
                let mut nb = b;
                {
                    let mut it = nb.parts.qualifiers.iter_mut();
                    if let Some((_, slot)) = if *first { it.next() } else { it.next_back() } {
                        *slot = w.as_str().into();
                    }
                }
                let target = if *first { r.quals.keys().next().cloned() } else { r.quals.keys().next_back().cloned() };
                if let Some(k) = target {
                    r.quals.insert(k, w.clone());
                }
                nb
            },
            BAct::PartsGetMutWrite(k, w) => {
                let mut nb = b;
                if let Some(slot) = nb.parts.qualifiers.get_mut(k.as_str()) {
                    *slot = w.as_str().into();
                }
                if let Some(slot) = r.quals.get_mut(&k.to_ascii_lowercase()) {
                    *slot = w.clone();
                }
                nb
            },
            BAct::Rebuild | BAct::Reparse => {
                // (whether build() may fail here is judged by the state oracle of the source state)
                let Ok(p) = b.build() else { return s.clone() };
                // what a successful build() normalises: type, name rule, empty qualifiers, checksum
                r.ty = r.ty.to_ascii_lowercase();
                if T::TYPED {
                    r.name = R::name_rule(&r.ty, &r.name);
                }
                r.quals.retain(|_, v| !v.is_empty());
                if let Some(c) = r.quals.get("checksum").cloned() {
                    if let Some(canon) = R::checksum_canonical(&c) {
                        r.quals.insert("checksum".into(), canon);
                    }
                }
                if matches!(a, BAct::Rebuild) {
                    p.into_builder()
                } else {
                    let text = p.to_string();
                    let Ok(p2) = T::parse(&text) else { return s.clone() };
                    // the parser hands out namespace and subpath without insignificant segments
                    r.ns = significant(&r.ns, false).unwrap_or_default();
                    r.subpath = significant(&r.subpath, true).unwrap_or_default();
                    p2.into_builder()
                }
            },
        };
        // per-transition oracle: the public fields are the reference record
        let rf = real_fields(&nb);
        if rf != r && verdict {
            acc.violate(Violation { prop: "C09", kind: "builder-fields".into(), case: trace(), detail: format!("builder fields {:?}, reference {:?}", rf, r) });
        }
        BState { real: nb, refb: r }
    }

    fn check_state(&self, s: &BState<T>, trace: &dyn Fn() -> Value, acc: &mut Acc) {
        check_build(self.prop, self.mon, &s.real, &s.refb, trace, acc);
    }
}

/// Direct enumeration of final builder states: namespace x name x version x subpath over the value
/// universe (all four for the thorough tier, all pairs of non-default fields for quick), x types x
/// qualifier contents.
pub fn product<T: BFlavor>(prop: &'static str, mon: u32, tier: Tier) -> (Acc, Value) {
    let types = T::type_universe();
    let mut qsets: Vec<Vec<(&str, &str)>> = vec![vec![]];
    for v in QVALUES {
        qsets.push(vec![("k", v)]);
    }
    for v in CVALUES {
        qsets.push(vec![("checksum", v)]);
        qsets.push(vec![("K", "a&b=c"), ("CHECKSUM", v)]);
    }
    qsets.push(vec![("k", "a"), ("l", "c")]);
    qsets.push(vec![("k", "a&l=c")]);
    qsets.push(vec![("b", "2"), ("A", "1"), ("c", "")]);
    let u = UNIVERSE.len();
    // index tuples (ns, name, version, subpath)
    let mut tuples: Vec<[usize; 4]> = Vec::new();
    match tier {
        Tier::Thorough => {
            for a in 0..u {
                for b in 0..u {
                    for c in 0..u {
                        for d in 0..u {
                            tuples.push([a, b, c, d]);
                        }
                    }
                }
            }
        },
        Tier::Quick => {
            // default: ns "", name "a", version "", subpath ""; all pairs of fields take all values
            let def = [0usize, 1, 0, 0];
            let mut seen = std::collections::BTreeSet::new();
            for f1 in 0..4 {
                for f2 in (f1 + 1)..4 {
                    for a in 0..u {
                        for b in 0..u {
                            let mut t = def;
                            t[f1] = a;
                            t[f2] = b;
                            if seen.insert(t) {
                                tuples.push(t);
                            }
                        }
                    }
                }
            }
        },
    }
    let nq = qsets.len();
    let nt = types.len();
    let acc = par_items(tuples.len(), threads(), |i, acc| {
        let t = tuples[i];
        for ty in &types {
            for qs in &qsets {
                acc.evals += 1;
                let mut refb = RefBuilder { ty: ty.clone(), ns: UNIVERSE[t[0]].into(), name: UNIVERSE[t[1]].into(), version: UNIVERSE[t[2]].into(), subpath: UNIVERSE[t[3]].into(), quals: BTreeMap::new() };
                let trace = || json!({"engine": format!("{}-product", T::MODEL), "ty": ty, "ns": UNIVERSE[t[0]], "name": UNIVERSE[t[1]], "version": UNIVERSE[t[2]], "subpath": UNIVERSE[t[3]], "quals": qs});
                let r = guarded(|| {
                    let mut b = GenericPurlBuilder::new(T::make(ty), UNIVERSE[t[1]]).with_namespace(UNIVERSE[t[0]]).with_version(UNIVERSE[t[2]]).with_subpath(UNIVERSE[t[3]]);
                    for (k, v) in qs {
                        b = b.with_qualifier(*k, *v).expect("valid key");
                        refb.quals.insert(k.to_ascii_lowercase(), (*v).to_owned());
                    }
                    check_build(prop, mon, &b, &refb, &trace, acc);
                });
                if let Err(m) = r {
                    acc.violate(Violation { prop: "C06", kind: "panic".into(), case: trace(), detail: m });
                }
                acc.nontrivial += 1;
            }
        }
        if i == 7 {
            acc.sample(|| json!({"ns": UNIVERSE[t[0]], "name": UNIVERSE[t[1]], "version": UNIVERSE[t[2]], "subpath": UNIVERSE[t[3]]}));
        }
    });
    let rep = json!({"engine": "C-product", "model": T::MODEL, "value_universe": UNIVERSE, "field_tuples": tuples.len(), "types": nt, "qualifier_contents": nq, "builds": acc.evals});
    (acc, rep)
}

/// Relational product: the fields take their values from a tiny set whose members are equal to,
/// prefixes of, or concatenations of each other (`a`, `b`, `a/b`, `a/b/c`, `a/b/a/b/c`, `g`, `g:a`, `a:b`,
/// `a@b`), in ALL assignments to namespace, name, version, subpath and a qualifier value, for every
/// type: whatever relation between two components a rule might key on, it occurs.
pub fn relational_product<T: BFlavor>(prop: &'static str, mon: u32) -> (Acc, Value) {
    const REL: [&str; 10] = ["", "a", "b", "a/b", "a/b/c", "a/b/a/b/c", "g", "g:a", "a:b", "a@b"];
    let types = T::type_universe();
    let n = REL.len();
    let acc = par_items(n * n, threads(), |i, acc| {
        let (a, b) = (i / n, i % n);
        for c in 0..n {
            for d in 0..n {
                for (qi, qv) in [None, Some(REL[a]), Some(REL[d])].iter().enumerate() {
                    if qi > 0 && qv.map(str::is_empty).unwrap_or(true) {
                        continue;
                    }
                    for ty in &types {
                        acc.evals += 1;
                        let mut refb = RefBuilder { ty: ty.clone(), ns: REL[a].into(), name: REL[b].into(), version: REL[c].into(), subpath: REL[d].into(), quals: BTreeMap::new() };
                        if let Some(v) = qv {
                            refb.quals.insert("k".into(), (*v).to_owned());
                        }
                        let trace = || json!({"engine": format!("{}-product", T::MODEL), "ty": ty, "ns": refb.ns, "name": refb.name, "version": refb.version, "subpath": refb.subpath, "quals": refb.quals.iter().map(|(k, v)| json!([k, v])).collect::<Vec<_>>()});
                        let r = guarded(|| {
                            let mut bld = GenericPurlBuilder::new(T::make(ty), refb.name.as_str()).with_namespace(refb.ns.as_str()).with_version(refb.version.as_str()).with_subpath(refb.subpath.as_str());
                            for (k, v) in &refb.quals {
                                bld = bld.with_qualifier(k.as_str(), v.as_str()).expect("valid key");
                            }
                            check_build(prop, mon, &bld, &refb, &trace, acc);
                        });
                        if let Err(m) = r {
                            acc.violate(Violation { prop: "C06", kind: "panic".into(), case: trace(), detail: m });
                        }
                        acc.nontrivial += 1;
                    }
                }
            }
        }
    });
    let rep = json!({"engine": "C-product", "model": T::MODEL, "instance": "relational (values that are equal to, prefixes of or concatenations of each other, all assignments)", "values": REL, "types": types.len(), "builds": acc.evals});
    (acc, rep)
}

/// Every Unicode scalar value inside each field (namespace, name, version, qualifier value, subpath),
/// through the full C09 oracle: build, accessors, print, re-parse.
pub fn scalar_fields<T: BFlavor>(prop: &'static str) -> (Acc, Value) {
    let ty = T::type_universe().into_iter().next().unwrap();
    let ty2 = if T::TYPED { "nuget".to_owned() } else { ty.clone() };
    let acc = crate::sweeps::for_all_scalars(|c, acc| {
        let text = format!("a{c}b");
        for field in 0..5usize {
            for (ti, t) in [&ty, &ty2].iter().enumerate() {
                if field != 1 && ti == 1 {
                    continue;
                }
                acc.evals += 1;
                let mut refb = RefBuilder { ty: (*t).clone(), ns: "g".into(), name: "n".into(), ..Default::default() };
                match field {
                    0 => refb.ns = text.clone(),
                    1 => refb.name = text.clone(),
                    2 => refb.version = text.clone(),
                    3 => {
                        refb.quals.insert("k".into(), text.clone());
                    },
                    _ => refb.subpath = text.clone(),
                }
                let trace = || json!({"engine": format!("{}-product", T::MODEL), "ty": refb.ty, "ns": refb.ns, "name": refb.name, "version": refb.version, "subpath": refb.subpath, "quals": refb.quals.iter().map(|(k, v)| json!([k, v])).collect::<Vec<_>>()});
                let r = guarded(|| {
                    let mut b = GenericPurlBuilder::new(T::make(t), refb.name.as_str()).with_namespace(refb.ns.as_str()).with_version(refb.version.as_str()).with_subpath(refb.subpath.as_str());
                    for (k, v) in &refb.quals {
                        b = b.with_qualifier(k.as_str(), v.as_str()).expect("valid key");
                    }
                    check_build(prop, 0, &b, &refb, &trace, acc);
                });
                if let Err(m) = r {
                    acc.violate(Violation { prop: "C06", kind: "panic".into(), case: trace(), detail: m });
                }
                acc.nontrivial += 1;
            }
        }
    });
    let rep = json!({"engine": "E-scalar-fields", "model": T::MODEL, "scalar_values": crate::sweeps::N_SCALARS, "fields": 5, "builds": acc.evals});
    (acc, rep)
}

/// Size ladders through the builder: EVERY length 0..=N of every field (several fillers, a
/// distinguished character first / last), and EVERY number 0..=M of qualifiers (three insertion
/// orders, alternating key case) followed by the removal of each single one — all through the full
/// per-state oracle. Cases are product cases (replayable as such).
pub fn ladders<T: BFlavor>(prop: &'static str, mon: u32, tier: Tier) -> (Acc, Value) {
    let (nlen, ncount) = match tier {
        Tier::Quick => (300usize, 64usize),
        Tier::Thorough => (1200usize, 200usize),
    };
    let types = T::type_universe();
    let ty = types[0].clone();
    let ty2 = if T::TYPED { "pypi".to_owned() } else { types[1].clone() };
    let units: [&str; 8] = ["a", "A", "é", "-", "a-", "/", "%", " "];
    let edges: [&str; 5] = ["", "É", "/", ".", "%41"];
    // (field, unit, n, edge, edge-first?)
    let mut jobs: Vec<(usize, &str, usize, &str, bool)> = Vec::new();
    for field in 0..5usize {
        for u in units.iter() {
            for n in 0..=nlen {
                if n > 300 && n % 11 != 0 {
                    continue;
                }
                for e in edges.iter() {
                    if e.is_empty() {
                        jobs.push((field, u, n, e, false));
                    } else if n % 2 == 1 || n < 40 {
                        jobs.push((field, u, n, e, false));
                        jobs.push((field, u, n, e, true));
                    }
                }
            }
        }
    }
    // a run of n separator-like characters INSIDE a field, between two letters (and at both ends at once)
    let mut sandwiches: Vec<(usize, String)> = Vec::new();
    for field in 0..5usize {
        for u in ["/", ".", "-", " ", "%", "a/", "./", "../", "//."] {
            for n in 0..=24usize {
                sandwiches.push((field, format!("x{}y", u.repeat(n))));
                if n > 0 {
                    sandwiches.push((field, format!("{}x{}", u.repeat(n), u.repeat(n))));
                }
            }
        }
    }
    let run_case = |refb: &RefBuilder, acc: &mut Acc| {
        let trace = || json!({"engine": format!("{}-product", T::MODEL), "ty": refb.ty, "ns": refb.ns, "name": refb.name, "version": refb.version, "subpath": refb.subpath, "quals": refb.quals.iter().map(|(k, v)| json!([k, v])).collect::<Vec<_>>()});
        let r = guarded(|| {
            let mut b = GenericPurlBuilder::new(T::make(&refb.ty), refb.name.as_str()).with_namespace(refb.ns.as_str()).with_version(refb.version.as_str()).with_subpath(refb.subpath.as_str());
            for (k, v) in &refb.quals {
                b = b.with_qualifier(k.as_str(), v.as_str()).expect("valid key");
            }
            check_build(prop, mon, &b, refb, &trace, acc);
        });
        if let Err(m) = r {
            acc.violate(Violation { prop: "C06", kind: "panic".into(), case: trace(), detail: m });
        }
        acc.evals += 1;
        acc.nontrivial += 1;
    };
    let mut acc = par_items(jobs.len(), threads(), |i, acc| {
        let (field, u, n, e, first) = jobs[i];
        let body = u.repeat(n);
        let text = if first { format!("{e}{body}") } else { format!("{body}{e}") };
        for t in [&ty, &ty2] {
            let mut refb = RefBuilder { ty: (*t).clone(), ns: "g".into(), name: "n".into(), ..Default::default() };
            match field {
                0 => refb.ns = text.clone(),
                1 => refb.name = text.clone(),
                2 => refb.version = text.clone(),
                3 => {
                    refb.quals.insert("k".into(), text.clone());
                },
                _ => refb.subpath = text.clone(),
            }
            run_case(&refb, acc);
        }
    });
    let sw = par_items(sandwiches.len(), threads(), |i, acc| {
        let (field, text) = &sandwiches[i];
        for t in [&ty, &ty2] {
            let mut refb = RefBuilder { ty: (*t).clone(), ns: "g".into(), name: "n".into(), ..Default::default() };
            match field {
                0 => refb.ns = text.clone(),
                1 => refb.name = text.clone(),
                2 => refb.version = text.clone(),
                3 => {
                    refb.quals.insert("k".into(), text.clone());
                },
                _ => refb.subpath = text.clone(),
            }
            run_case(&refb, acc);
        }
    });
    acc.merge(sw);
    let length_cases = acc.evals;
    // qualifier counts: the reference map is insertion-order independent, the real builder is driven
    // in three orders with alternating key case; then each single key is removed again
    let counts = par_items(ncount + 1, threads(), |n, acc| {
        let key = |i: usize| format!("q{i:03}");
        let asc: Vec<usize> = (0..n).collect();
        let desc: Vec<usize> = (0..n).rev().collect();
        let zig: Vec<usize> = (0..n).map(|i| if i % 2 == 0 { i / 2 } else { n - 1 - i / 2 }).collect();
        for (oi, order) in [asc, desc, zig].iter().enumerate() {
            if n < 2 && oi > 0 {
                continue;
            }
            let mut refb = RefBuilder { ty: ty.clone(), ns: "g".into(), name: "n".into(), ..Default::default() };
            let r = guarded(|| {
                let mut b = GenericPurlBuilder::new(T::make(&ty), "n").with_namespace("g");
                for (j, i) in order.iter().enumerate() {
                    let k = if j % 2 == 0 { key(*i) } else { key(*i).to_ascii_uppercase() };
                    // every fifth value is empty (dropped by build()), one is a checksum
                    let v = if i % 5 == 4 { String::new() } else { format!("v{i}") };
                    b = b.with_qualifier(k.as_str(), v.as_str()).expect("valid key");
                    refb.quals.insert(key(*i), v);
                }
                if n % 3 == 1 {
                    b = b.with_qualifier("CHECKSUM", "B:FF,a:0A").expect("valid key");
                    refb.quals.insert("checksum".into(), "B:FF,a:0A".into());
                }
                let trace = || json!({"engine": format!("{}-ladder", T::MODEL), "qualifiers": n, "insert_order": oi, "then": "build"});
                check_build(prop, mon, &b, &refb, &trace, acc);
                acc.evals += 1;
                // remove each single key (other letter case) from a clone
                for i in 0..n {
                    let k = if i % 2 == 1 { key(i) } else { key(i).to_ascii_uppercase() };
                    let b2 = b.clone().without_qualifier(k.as_str());
                    let mut r2 = refb.clone();
                    r2.quals.remove(&key(i));
                    let trace = || json!({"engine": format!("{}-ladder", T::MODEL), "qualifiers": n, "insert_order": oi, "then": format!("without_qualifier({k:?})")});
                    let rf = real_fields(&b2);
                    if rf != r2 && prop == "C09" {
                        acc.violate(Violation { prop: "C09", kind: "builder-fields".into(), case: trace(), detail: format!("builder fields {:?}, reference {:?}", rf, r2) });
                    }
                    check_build(prop, mon, &b2, &r2, &trace, acc);
                    acc.evals += 1;
                }
            });
            if let Err(m) = r {
                acc.violate(Violation { prop: "C06", kind: "panic".into(), case: json!({"engine": format!("{}-ladder", T::MODEL), "qualifiers": n, "insert_order": oi, "then": "panic"}), detail: m });
            }
        }
        acc.nontrivial = acc.evals;
    });
    let count_cases = counts.evals;
    acc.merge(counts);
    let rep = json!({"engine": "C-size-ladder", "model": T::MODEL, "every_field_length_up_to": nlen.min(300), "every_qualifier_count_up_to": ncount, "length_cases": length_cases, "count_cases": count_cases});
    (acc, rep)
}

/// replay of a qualifier-count ladder case: re-run the ladder for that count, keep the recorded step
pub fn replay_ladder<T: BFlavor>(prop: &'static str, mon: u32, case: &Value) -> Option<Vec<Violation>> {
    let n = case["qualifiers"].as_u64()? as usize;
    let key = |i: usize| format!("q{i:03}");
    let oi = case["insert_order"].as_u64()? as usize;
    let ty = T::type_universe()[0].clone();
    let order: Vec<usize> = match oi {
        0 => (0..n).collect(),
        1 => (0..n).rev().collect(),
        _ => (0..n).map(|i| if i % 2 == 0 { i / 2 } else { n - 1 - i / 2 }).collect(),
    };
    let mut acc = Acc::new();
    let mut refb = RefBuilder { ty: ty.clone(), ns: "g".into(), name: "n".into(), ..Default::default() };
    let r = guarded(|| {
        let mut b = GenericPurlBuilder::new(T::make(&ty), "n").with_namespace("g");
        for (j, i) in order.iter().enumerate() {
            let k = if j % 2 == 0 { key(*i) } else { key(*i).to_ascii_uppercase() };
            let v = if i % 5 == 4 { String::new() } else { format!("v{i}") };
            b = b.with_qualifier(k.as_str(), v.as_str()).expect("valid key");
            refb.quals.insert(key(*i), v);
        }
        if n % 3 == 1 {
            b = b.with_qualifier("CHECKSUM", "B:FF,a:0A").expect("valid key");
            refb.quals.insert("checksum".into(), "B:FF,a:0A".into());
        }
        let then = case["then"].as_str().unwrap_or("build").to_owned();
        let trace = || case.clone();
        if then == "build" || then == "panic" {
            check_build(prop, mon, &b, &refb, &trace, &mut acc);
        }
        for i in 0..n {
            let k = if i % 2 == 1 { key(i) } else { key(i).to_ascii_uppercase() };
            if then != format!("without_qualifier({k:?})") && then != "panic" {
                continue;
            }
            let b2 = b.clone().without_qualifier(k.as_str());
            let mut r2 = refb.clone();
            r2.quals.remove(&key(i));
            let rf = real_fields(&b2);
            if rf != r2 && prop == "C09" {
                acc.violate(Violation { prop: "C09", kind: "builder-fields".into(), case: trace(), detail: format!("builder fields {:?}, reference {:?}", rf, r2) });
            }
            check_build(prop, mon, &b2, &r2, &trace, &mut acc);
        }
    });
    if let Err(m) = r {
        acc.violate(Violation { prop: "C06", kind: "panic".into(), case: case.clone(), detail: m });
    }
    Some(acc.violations)
}

/// replay of a product case
pub fn replay_product<T: BFlavor>(prop: &'static str, mon: u32, case: &Value) -> Option<Vec<Violation>> {
    let mut acc = Acc::new();
    let ty = case["ty"].as_str()?;
    let mut refb = RefBuilder { ty: ty.to_owned(), ns: case["ns"].as_str()?.into(), name: case["name"].as_str()?.into(), version: case["version"].as_str()?.into(), subpath: case["subpath"].as_str()?.into(), quals: BTreeMap::new() };
    let trace = || case.clone();
    let r = guarded(|| {
        let mut b = GenericPurlBuilder::new(T::make(ty), refb.name.as_str()).with_namespace(refb.ns.as_str()).with_version(refb.version.as_str()).with_subpath(refb.subpath.as_str());
        for q in case["quals"].as_array().cloned().unwrap_or_default() {
            let (k, v) = (q[0].as_str().unwrap_or(""), q[1].as_str().unwrap_or(""));
            b = b.with_qualifier(k, v).expect("valid key");
            refb.quals.insert(k.to_ascii_lowercase(), v.to_owned());
        }
        check_build(prop, mon, &b, &refb, &trace, &mut acc);
    });
    if let Err(m) = r {
        acc.violate(Violation { prop: "C06", kind: "panic".into(), case: case.clone(), detail: m });
    }
    Some(acc.violations)
}

#[allow(dead_code)]
pub fn unused<T: Flavor>(_: &GenericPurl<T>) {}
