//! One entry per property: which engines, which oracle, which bounds.

use std::collections::BTreeMap;
use std::time::Instant;

use serde_json::{json, Value};

use crate::builders::*;
use crate::common::*;
use crate::lens::{self, Lens};
use crate::monitors::*;
use crate::sweeps;

pub fn run(prop: &str, tier: Tier, seed: i64, replay: Option<&str>) -> i32 {
    let started = Instant::now();
    if prop == "selftest" {
        return crate::selftest::run();
    }
    let prop = prop_static(prop);
    if let Some(path) = replay {
        return run_replay(prop, path);
    }
    if prop == "C06" {
        // "... or fails to terminate": no single input may stay in progress longer than this
        start_watchdog("C06", std::env::var("VERIF_HANG_LIMIT_S").ok().and_then(|v| v.parse().ok()).unwrap_or(300));
    }
    let mut ck = Check::new(prop, tier, seed, started);
    match prop {
        "C01" | "C02" | "C04" | "C05" | "C06" | "C07" | "C10" | "C13" | "C16" => {
            ck.lens_stage(plans_for(prop, tier));
            if matches!(prop, "C01" | "C02" | "C04" | "C06" | "C07" | "C10" | "C13" | "C16") {
                let (a, r) = crate::engine_b::spelling_stage(prop, monitors_for(prop), tier);
                ck.add_stage(a, r);
            }
            if matches!(prop, "C05" | "C06" | "C16") {
                if prop == "C05" {
                    let (a, r) = crate::engine_b::fault_stage(tier);
                    ck.add_stage(a, r);
                } else {
                    faults_as_inputs(&mut ck);
                }
            }
            if matches!(prop, "C06" | "C01" | "C10" | "C04") {
                ck.pumping_stage();
            }
            ck.corpus_stage();
            ck.ladder_stage();
            if matches!(prop, "C02" | "C16") {
                history_stage(&mut ck);
            }
            if matches!(prop, "C01" | "C10") {
                let (a, r) = crate::hist::explore_hold(prop, tier);
                ck.add_stage(a, r);
            }
            // (the serde monitor is ten times as expensive per string: ASCII only in C16's quick tier)
            ck.scalar_position_stage(prop == "C16" && tier == Tier::Quick);
            if matches!(prop, "C04" | "C06" | "C10") {
                builder_stages(&mut ck, true);
            }
            if prop == "C06" {
                c11(&mut ck);
                checksum_stage(&mut ck);
                // the sweeps are additional sources of calls that must not panic
                #[cfg(feature = "typed")]
                {
                    let (a, r) = sweeps::c08_sweep(tier);
                    ck.add_stage(a, r);
                    let (a, r) = sweeps::c18_sweep(tier);
                    ck.add_stage(a, r);
                }
                let (a, r) = sweeps::c13_sweep(tier, M03 | M04 | M10);
                ck.add_stage(a, r);
            }
            if prop == "C13" {
                let (a, r) = sweeps::c13_sweep(tier, 0);
                ck.add_stage(a, r);
            }
            if matches!(prop, "C10" | "C04") {
                // the value monitor for Cow (both forms) and SmallString too: every built value of the flavour sweep
                let (a, r) = sweeps::c13_sweep(tier, monitors_for(prop));
                ck.add_stage(a, r);
            }
            if matches!(prop, "C04" | "C06") {
                shapes_stage(&mut ck);
            }
            if prop == "C06" {
                let (a, r) = crate::hist::limited_sink_sweep(prop);
                ck.add_stage(a, r);
            }
        },
        "C03" => {
            let (a, r) = sweeps::c03_sweep(tier);
            ck.add_stage(a, r);
            let (a, r) = sweeps::c13_sweep(tier, M03);
            ck.add_stage(a, r);
            ck.lens_stage(plans_for(prop, tier));
            ck.ladder_stage();
            let (a, r) = crate::hist::explore_hold(prop, tier);
            ck.add_stage(a, r);
            history_stage(&mut ck);
            let (a, r) = crate::hist::limited_sink_sweep(prop);
            ck.add_stage(a, r);
            builder_stages(&mut ck, false);
        },
        "C12" => {
            hashorder_stage(&mut ck);
            checksum_stage(&mut ck);
            history_stage(&mut ck);
            // checksums written by the finishing hook of a user-supplied type
            shapes_stage(&mut ck);
            // "a PURL parsed or BUILT with a checksum qualifier": the builder histories with M12 on every state
            builder_stages(&mut ck, false);
            ck.lens_stage(plans_for(prop, tier));
            ck.ladder_stage();
            let (a, r) = crate::engine_b::spelling_stage(prop, monitors_for(prop), tier);
            ck.add_stage(a, r);
        },
        "C17" => {
            let (a, r) = crate::transcript::compare(tier, None);
            ck.add_stage(a, r);
        },
        "C19" => {
            let (a, reps) = crate::pools::run(tier);
            let mut first = true;
            for r in reps {
                if first {
                    ck.add_stage(Acc::new(), r);
                    first = false;
                } else {
                    ck.add_stage(Acc::new(), r);
                }
            }
            ck.total.merge(a);
        },
        #[cfg(feature = "typed")]
        "C08" => {
            let (a, r) = sweeps::c08_sweep(tier);
            ck.add_stage(a, r);
            ck.lens_stage(plans_for(prop, tier));
            ck.ladder_stage();
            history_stage(&mut ck);
        },
        #[cfg(feature = "typed")]
        "C15" => {
            let (a, r) = sweeps::c15_sweep(tier);
            ck.add_stage(a, r);
            history_stage(&mut ck);
        },
        #[cfg(feature = "typed")]
        "C18" => {
            let (a, r) = sweeps::c18_sweep(tier);
            ck.add_stage(a, r);
            ck.lens_stage(plans_for(prop, tier));
            ck.ladder_stage();
            history_stage(&mut ck);
        },
        "C11" => {
            c11(&mut ck);
            history_stage(&mut ck);
        },
        "C14" => shapes_stage(&mut ck),
        "C09" => {
            builder_stages(&mut ck, true);
            history_stage(&mut ck);
            let (a, r) = crate::m_builder::scalar_fields::<String>(prop);
            ck.add_stage(a, r);
            #[cfg(feature = "typed")]
            {
                let (a, r) = crate::m_builder::scalar_fields::<purl::PackageType>(prop);
                ck.add_stage(a, r);
            }
        },
        _ => {
            eprintln!("MACHINERY: no check for {prop} in this build");
            return 2;
        },
    }
    ck.finish()
}

/// Engine C over the builder (String and PackageType) plus the direct product of final states.
fn builder_stages(ck: &mut Check, with_product: bool) {
    use crate::m_builder::*;
    use crate::xstate::bfs;
    let mon = monitors_for(ck.prop) & (M03 | M04 | M06 | M10 | M12);
    let depth = match (ck.tier, ck.prop) {
        (Tier::Quick, _) => 2,
        (Tier::Thorough, "C09") => 3,
        (Tier::Thorough, _) => 2,
    };
    fn one<T: BFlavor>(ck: &mut Check, mon: u32, depth: usize, with_product: bool) {
        let m = BModel::<T>::new(ck.prop, mon, if ck.tier == Tier::Quick { 1 } else { 2 });
        let t0 = Instant::now();
        let mut res = bfs(&m, Some(depth), 6_000_000);
        res.acc.nontrivial = res.states;
        ck.states = Some(ck.states.unwrap_or(0) + res.states);
        ck.transitions = Some(ck.transitions.unwrap_or(0) + res.transitions);
        ck.traces = ck.transitions;
        if res.acc.counters.contains_key("state_cap_hit") {
            ck.exhaustive = false;
        }
        ck.add_stage(
            res.acc,
            json!({"engine": "C-bfs", "model": T::MODEL, "value_universe": UNIVERSE, "actions_per_state": m.acts.len(), "initial_states": res.inits,
                   "states_stored": res.states, "transitions": res.transitions, "depth": depth, "new_states_per_depth": res.per_depth, "wall_s": t0.elapsed().as_secs_f64()}),
        );
        if with_product {
            let (a, r) = product::<T>(ck.prop, mon, ck.tier);
            ck.add_stage(a, r);
        }
        let (a, r) = ladders::<T>(ck.prop, mon, ck.tier);
        ck.add_stage(a, r);
        let (a, r) = relational_product::<T>(ck.prop, mon);
        ck.add_stage(a, r);
        // deeper histories over the reduced action set
        let m = BModel::<T>::new_sharp(ck.prop, mon);
        let sharp_depth = match (ck.tier, ck.prop) {
            (Tier::Quick, "C09") => 5,
            (Tier::Quick, _) => 4,
            (Tier::Thorough, "C09") => 7,
            (Tier::Thorough, _) => 5,
        };
        let t0 = Instant::now();
        let mut res = bfs(&m, Some(sharp_depth), 6_000_000);
        res.acc.nontrivial = res.states;
        ck.states = Some(ck.states.unwrap_or(0) + res.states);
        ck.transitions = Some(ck.transitions.unwrap_or(0) + res.transitions);
        ck.traces = ck.transitions;
        if res.acc.counters.contains_key("state_cap_hit") {
            ck.exhaustive = false;
        }
        ck.add_stage(
            res.acc,
            json!({"engine": "C-bfs", "model": T::MODEL, "instance": "sharp (reduced action set, deeper)", "actions": m.acts.iter().map(|a| format!("{:?}", a)).collect::<Vec<_>>(), "actions_per_state": m.acts.len(),
                   "initial_states": res.inits, "states_stored": res.states, "transitions": res.transitions, "depth": sharp_depth, "new_states_per_depth": res.per_depth, "wall_s": t0.elapsed().as_secs_f64()}),
        );
    }
    one::<String>(ck, mon, depth, with_product);
    #[cfg(feature = "typed")]
    one::<purl::PackageType>(ck, mon, depth, with_product);
}

/// Engine H: history independence (depth 2 and 3 sequences of operations on independent objects)
fn history_stage(ck: &mut Check) {
    let (a, r) = crate::hist::explore(ck.prop, ck.tier);
    ck.add_stage(a, r);
}

/// Single-fault strings of Engine B as plain inputs for the monitors of another property.
fn faults_as_inputs(ck: &mut Check) {
    use crate::spell::*;
    let se = StringEval { prop: ck.prop, mon: monitors_for(ck.prop) };
    let tuples = tuple_universe(false);
    let a = par_items(tuples.len(), threads(), |i, acc| {
        let t = &tuples[i];
        let menu = fault_menu(t);
        for (site, n) in menu.iter().enumerate() {
            for alt in 1..=*n {
                let (text, info) = respell(t, &[], Some(FaultSel { site, alt }));
                if info.is_some() && se.eval(&text, acc) {
                    acc.nontrivial += 1;
                }
            }
        }
    });
    let n = a.evals;
    ck.add_stage(a, json!({"engine": "B-faults-as-inputs", "tuples": tuples.len(), "faulted_strings": n}));
}

/// Engine D: merge the report of the hook-enabled binary (run by ./check before this one) and
/// observe what the production build's random seeding produces.
fn hashorder_stage(ck: &mut Check) {
    match std::env::var("C12_HASHORDER") {
        Ok(path) => {
            let text = std::fs::read_to_string(&path).unwrap_or_default();
            let Ok(v) = serde_json::from_str::<Value>(&text) else {
                println!("MACHINERY: cannot read the hash-order report {path}");
                std::process::exit(2);
            };
            let mut a = Acc::new();
            a.evals = v["evals"].as_u64().unwrap_or(0);
            a.nontrivial = a.evals;
            a.calls = v["calls"].as_u64().unwrap_or(0);
            for x in v["violations"].as_array().cloned().unwrap_or_default() {
                let prop = if x["prop"] == "C12" { "C12" } else { "C06" };
                a.violate(Violation { prop, kind: x["kind"].as_str().unwrap_or("").to_owned(), case: x["case"].clone(), detail: x["detail"].as_str().unwrap_or("").to_owned() });
            }
            for s in v["stages"].as_array().cloned().unwrap_or_default() {
                a.sig(&s.to_string());
                a.samples.push(json!({"hash_order_stage": s["entries"], "orders": s["distinct_iteration_orders_observed"]}));
                ck.bounds.push(s.clone());
                ck.stages.push(s);
            }
            ck.total.merge(a);
        },
        Err(_) => {
            println!("MACHINERY: C12 needs the hash-order report of the hook-enabled build (run through ./check)");
            std::process::exit(2);
        },
    }
    let (a, r) = crate::hashorder::production_orders(ck.tier);
    ck.add_stage(a, r);
}

fn shapes_stage(ck: &mut Check) {
    let t0 = Instant::now();
    let (a, mut rep, states, transitions) = crate::m_shapes::explore(ck.tier);
    rep["wall_s"] = json!(t0.elapsed().as_secs_f64());
    ck.states = Some(ck.states.unwrap_or(0) + states);
    ck.transitions = Some(ck.transitions.unwrap_or(0) + transitions);
    ck.traces = ck.transitions;
    ck.add_stage(a, rep);
}

fn checksum_stage(ck: &mut Check) {
    use crate::m_checksum::*;
    use crate::xstate::bfs;
    let m = CModel::new(ck.prop, ck.tier);
    let t0 = Instant::now();
    let mut res = bfs(&m, None, 3_000_000);
    res.acc.nontrivial = res.states;
    ck.states = Some(ck.states.unwrap_or(0) + res.states);
    ck.transitions = Some(ck.transitions.unwrap_or(0) + res.transitions);
    ck.traces = ck.transitions;
    if !res.fixpoint {
        ck.exhaustive = false;
    }
    ck.add_stage(
        res.acc,
        json!({"engine": "C-bfs", "model": "checksum-bfs", "algorithm_spellings": m.spellings, "algorithm_classes": m.lower, "actions_per_state": m.acts.len(), "initial_states": res.inits,
               "states": res.states, "transitions": res.transitions, "max_depth": res.max_depth, "fixpoint_reached": res.fixpoint, "new_states_per_depth": res.per_depth, "wall_s": t0.elapsed().as_secs_f64()}),
    );
    let mut a = Acc::new();
    let rep = crate::m_checksum::long_histories(&mut a);
    ck.add_stage(a, rep);
    let mut a = Acc::new();
    let rep = crate::m_checksum::raw_value_sweep(&mut a);
    ck.add_stage(a, rep);
}

fn c11(ck: &mut Check) {
    use crate::m_quals::*;
    use crate::xstate::bfs;
    let mut states = 0u64;
    let mut transitions = 0u64;
    for which in 0..3 {
        let typed = which > 0;
        let m = if which == 2 { QModel::new_typed_others() } else { QModel::new(ck.tier, typed) };
        let t0 = Instant::now();
        let mut res = bfs(&m, None, 3_000_000);
        let mut pa = Acc::new();
        // all pairs of reached contents (one representative per distinct reference content)
        let mut reps: Vec<QState> = Vec::new();
        let mut seen = std::collections::BTreeSet::new();
        for s in &res.reached {
            if seen.insert(s.refm.clone()) {
                reps.push(s.clone());
            }
        }
        pairwise(&reps, &mut pa);
        res.acc.merge(pa);
        res.acc.nontrivial = res.states;
        states += res.states;
        transitions += res.transitions;
        if !res.fixpoint {
            ck.exhaustive = false;
        }
        if !typed && ck.prop == "C11" {
            // self-check of the explorer: stateright's BFS over the same step function
            match std::env::var("C11_SR").ok().and_then(|p| std::fs::read_to_string(p).ok()).and_then(|t| serde_json::from_str::<Value>(&t).ok()) {
                Some(v) => {
                    let sr = v["unique_states"].as_u64().unwrap_or(0);
                    // only meaningful when the implementation agrees with the reference (otherwise both
                    // explorers see diverging states and Engine C's violations are the verdict)
                    let agree = sr == reps.len() as u64 && sr == res.states && v["discoveries"].as_array().map(|d| d.is_empty()).unwrap_or(false) && v["done"] == json!(true);
                    if !agree && res.acc.violation_count == 0 {
                        println!("MACHINERY: explorer cross-check failed: Engine C found {} states ({} contents), stateright reports {}", res.states, reps.len(), v);
                        std::process::exit(2);
                    }
                    ck.extra.insert("stateright_cross_check".into(), v);
                },
                None => {
                    println!("MACHINERY: C11 needs the stateright cross-check report (run through ./check)");
                    std::process::exit(2);
                },
            }
        }
        ck.add_stage(
            res.acc,
            json!({"engine": "C-bfs", "model": m.name, "keys": m.keys, "invalid_keys": m.invalid, "values": m.values, "actions_per_state": m.acts.len(),
                   "initial_states": res.inits, "states": res.states, "transitions": res.transitions, "max_depth": res.max_depth, "fixpoint_reached": res.fixpoint,
                   "new_states_per_depth": res.per_depth, "distinct_reference_contents": reps.len(), "wall_s": t0.elapsed().as_secs_f64()}),
        );
    }
    ck.states = Some(ck.states.unwrap_or(0) + states);
    ck.transitions = Some(ck.transitions.unwrap_or(0) + transitions);
    ck.traces = ck.transitions;
    let mut a = Acc::new();
    let rep = crate::m_quals::long_histories(&mut a);
    ck.add_stage(a, rep);
    let mut a = Acc::new();
    let rep = crate::m_quals::size_ladder(ck.tier, None, &mut a);
    ck.add_stage(a, rep);
    let mut a = Acc::new();
    let rep = crate::m_quals::bulk_sizes(ck.tier, &mut a);
    ck.add_stage(a, rep);
}

pub fn prop_static(p: &str) -> &'static str {
    const IDS: [&str; 19] = [
        "C01", "C02", "C03", "C04", "C05", "C06", "C07", "C08", "C09", "C10", "C11", "C12", "C13", "C14", "C15", "C16", "C17", "C18", "C19",
    ];
    match IDS.iter().find(|x| **x == p) {
        Some(x) => x,
        None => {
            eprintln!("MACHINERY: unknown property id {p}");
            std::process::exit(2)
        },
    }
}

/// Re-run exactly one recorded case without any explorer.
fn run_replay(prop: &'static str, path: &str) -> i32 {
    let text = match std::fs::read_to_string(path) {
        Ok(t) => t,
        Err(e) => {
            eprintln!("MACHINERY: cannot read {path}: {e}");
            return 2;
        },
    };
    let v: Value = match serde_json::from_str(&text) {
        Ok(v) => v,
        Err(e) => {
            eprintln!("MACHINERY: {path} is not JSON: {e}");
            return 2;
        },
    };
    let case = if v.get("case").is_some() { v["case"].clone() } else { v.clone() };
    match replay_case(prop, &case) {
        None => {
            eprintln!("MACHINERY: cannot replay this kind of case: {case}");
            2
        },
        Some(vs) => {
            let mine: Vec<&Violation> = vs.iter().filter(|x| x.prop == prop).collect();
            for x in &mine {
                println!("{}: {} -- {}", x.kind, x.case, x.detail);
            }
            if mine.is_empty() {
                println!("replay: property {prop} holds on this case");
                0
            } else {
                println!("VIOLATION property={prop} replay={path}");
                1
            }
        },
    }
}

pub fn monitors_for(prop: &str) -> u32 {
    match prop {
        "C01" => M01,
        "C02" => M02,
        "C03" => M03,
        "C04" => M04,
        "C05" => M05,
        "C06" => M06 | M01 | M03 | M04 | M07 | M10 | M12,
        "C07" => M07,
        "C08" => M08,
        "C10" => M10,
        "C12" => M12,
        "C13" => M13,
        "C16" => M16,
        "C18" => M18,
        _ => 0,
    }
}

/// Replay dispatcher: every engine's case format is understood here.
pub fn replay_case(prop: &'static str, case: &Value) -> Option<Vec<Violation>> {
    let mut acc = Acc::new();
    match case["engine"].as_str()? {
        "string" => {
            let s = case["input"].as_str()?;
            StringEval { prop, mon: monitors_for(prop) }.eval(s, &mut acc);
        },
        "c13-flavors" => sweeps::c13_flavor_case(&BuildSpec::from_json(&case["spec"])?, 0, &mut acc),
        "flavor-monitors" | "c10-flavors" => sweeps::c13_flavor_case(&BuildSpec::from_json(&case["spec"])?, case["mon"].as_u64().unwrap_or(M10 as u64) as u32, &mut acc),
        "build" => {
            let spec = BuildSpec::from_json(&case["spec"])?;
            BuildEval { prop, mon: monitors_for(prop) }.eval(case["flavor"].as_str()?, &spec, &mut acc);
        },
        "quals-bfs" => return crate::xstate::replay(&crate::m_quals::QModel::new(Tier::Thorough, false), case).or_else(|| crate::xstate::replay(&crate::m_quals::QModel::new(Tier::Quick, false), case)),
        "quals-typed-bfs" => return crate::xstate::replay(&crate::m_quals::QModel::new(Tier::Quick, true), case),
        "quals-bulk" => return crate::m_quals::replay_bulk(case),
        "quals-ladder" => return crate::m_quals::replay_ladder(case),
        "quals-typed-others-bfs" => return crate::xstate::replay(&crate::m_quals::QModel::new_typed_others(), case),
        #[cfg(purl_verif)]
        "hashorder" => return crate::hashorder::replay(case),
        "spell" => return crate::engine_b::replay(prop, monitors_for(prop), case),
        "history" => return crate::hist::replay(prop, case),
        "after-history" => return crate::hist::replay_after(prop, case, &|c| replay_case(prop, c)),
        "limited-sink" => {
            let (a, _) = crate::hist::limited_sink_sweep(prop);
            acc.violations = a.violations.into_iter().filter(|v| v.case == *case).collect();
        },
        "history-hold" => return crate::hist::replay_hold(prop, case),
        "pool-pair" => return crate::pools::replay_pair(case),
        "transcript" => {
            let (a, _) = crate::transcript::compare(Tier::Quick, case["chunk"].as_str());
            return Some(a.violations);
        },
        "shape-parse" | "shape-build" => return crate::m_shapes::replay(case),
        "checksum-raw" => {
            // (the sweep is cheap: re-run it and keep the recorded case)
            let mut a = Acc::new();
            crate::m_checksum::raw_value_sweep(&mut a);
            acc.violations = a.violations.into_iter().filter(|v| v.case == *case).collect();
        },
        "checksum-bfs" => return crate::xstate::replay(&crate::m_checksum::CModel::new(prop, Tier::Thorough), case),
        "builder-bfs" => return crate::xstate::replay(&crate::m_builder::BModel::<String>::new(prop, monitors_for(prop), 2), case),
        #[cfg(feature = "typed")]
        "builder-typed-bfs" => return crate::xstate::replay(&crate::m_builder::BModel::<purl::PackageType>::new(prop, monitors_for(prop), 2), case),
        "builder-bfs-ladder" => return crate::m_builder::replay_ladder::<String>(prop, monitors_for(prop), case),
        #[cfg(feature = "typed")]
        "builder-typed-bfs-ladder" => return crate::m_builder::replay_ladder::<purl::PackageType>(prop, monitors_for(prop), case),
        "builder-bfs-product" => return crate::m_builder::replay_product::<String>(prop, monitors_for(prop), case),
        #[cfg(feature = "typed")]
        "builder-typed-bfs-product" => return crate::m_builder::replay_product::<purl::PackageType>(prop, monitors_for(prop), case),
        #[cfg(feature = "typed")]
        "c08-name" => sweeps::c08_name_case(case["ty"].as_str()?, case["name"].as_str()?, &mut acc),
        #[cfg(feature = "typed")]
        "c08-maven-ns" => sweeps::c08_maven_case(case["ns"].as_str()?, &mut acc),
        #[cfg(feature = "typed")]
        "c08-unknown-type" => {
            let mut a = Acc::new();
            sweeps::c08_unknown_types(&mut a);
            acc.violations = a.violations.into_iter().filter(|v| v.case == *case).collect();
        },
        #[cfg(feature = "typed")]
        "c08-other-fields" => {
            let mut a = Acc::new();
            sweeps::c08_other_fields(&mut a);
            acc.violations = a.violations.into_iter().filter(|v| v.case == *case).collect();
        },
        #[cfg(feature = "typed")]
        "c08-maven-no-ns" => sweeps::c08_maven_no_namespace(case["name"].as_str()?, &mut acc),
        #[cfg(feature = "typed")]
        "c15" => sweeps::c15_case(case["input"].as_str()?, &mut acc),
        #[cfg(feature = "typed")]
        "c18-forward" => sweeps::c18_forward(case["ty"].as_str()?, case["combined"].as_str()?, &mut acc),
        _ => return None,
    }
    Some(acc.violations)
}

pub struct Plan {
    pub lens: Lens,
    pub n: usize,
}

fn typed_plans(tier: Tier, names: &[&str]) -> Vec<Plan> {
    let mut plans = Vec::new();
    for name in names {
        let l = lens::lens(name);
        if *name == "A3" {
            let mut c = l.clone();
            c.name = "A3-typed";
            c.prefixes = vec!["pkg:npm/", "pkg:maven/x/", "pkg:golang/n#"];
            let n = c.bound(tier).saturating_sub(1);
            plans.push(Plan { lens: c, n });
            continue;
        }
        let mut single = l.clone();
        single.prefixes.truncate(1);
        let mut c = lens::typed_copy(&single, 1);
        c.name = match *name {
            "A1b" => "A1b-typed",
            "A5b" => "A5b-typed",
            _ => "A6-typed",
        };
        let n = c.bound(tier);
        plans.push(Plan { lens: c, n });
    }
    plans
}

pub fn plans_for(prop: &str, tier: Tier) -> Vec<Plan> {
    let all = lens::all_lenses();
    let pick = |names: &[&str]| -> Vec<Lens> { names.iter().map(|n| lens::lens(n)).collect() };
    let base: Vec<Lens> = match prop {
        "C07" => pick(&["A3", "A1a", "A1b", "A12", "A16"]),
        "C13" => pick(&["A2-", "A1a", "A1b", "A3", "A4", "A5a", "A5b", "A6", "A10", "A12", "A14a", "A14b"]),
        "C12" => pick(&["A6", "A14a", "A14b"]),
        "C16" => pick(&["A1b", "A2-", "A2s", "A4", "A5b", "A6", "A7", "A10", "A12", "A13", "A14a", "A14b", "A15"]),
        "C08" => pick(&["A7", "A2-", "A1b", "A10", "A12", "A13", "A16"]),
        "C18" => pick(&["A7", "A12", "A16"]),
        _ => all.clone(),
    };
    let mut plans: Vec<Plan> = base.iter().map(|l| Plan { lens: l.clone(), n: l.bound(tier) }).collect();
    match prop {
        "C01" | "C03" | "C04" | "C06" | "C07" | "C10" | "C02" | "C05" | "C08" => plans.extend(typed_plans(tier, &["A1b", "A3", "A5b", "A6"])),
        "C18" => plans.extend(typed_plans(tier, &["A1b", "A3"])),
        "C12" => plans.extend(typed_plans(tier, &["A6"])),
        _ => {},
    }
    plans
}

fn rule_for(prop: &str) -> &'static str {
    match prop {
        "C01" => "every node of every token lens (all strings P.t1..tk.S, k<=n) is parsed as GenericPurl<String>, GenericPurl<SmallString> and Purl; non-trivial = accepted by at least one of them (the round trip is then executed); distinct = distinct strings (alphabets are uniquely decodable, strings already counted in an earlier lens are not counted again)",
        "C02" => "every node of every token lens; non-trivial = the independent reference parser judges the string and finds no defect (the implementation must then return exactly the reference components); distinct strings as for C01",
        "C03" => "sweep: every Unicode scalar value c, alone and as 'a c b', and every ASCII pair, placed in each of namespace, name, version, qualifier value, subpath through the builder, for the listed type parameters and types - non-trivial = the build succeeds and to_string() is compared with the independent renderer; lenses: every accepted node (parser-obtained values) is compared the same way",
        "C04" => "every node of every token lens, three instantiations; non-trivial = accepted (invariants are then read through the accessors)",
        "C05" => "every node of every token lens; non-trivial = the reference parser judges the string and finds at least one defect (must be refused, with the matching error if it is the only defect)",
        "C06" => "every node of every token lens plus the pumping family up to 1 MiB; every string is non-trivial (each is a distinct attempt to make the library panic): from_str x3, to_string, Debug, clone, into_builder, build, typed checksum accessors, all under catch_unwind in a build with overflow checks and debug assertions",
        "C07" => "every node of the dot-segment and separator lenses and their typed copies; non-trivial = accepted and the input has a namespace or subpath region",
        "C08" => "sweep: every Unicode scalar value as name 'c' and 'xcx' for each of the seven types, every string up to the bound over {a A 1 - _ . E-acute titlecase-dz} for pypi and nuget, through builder and parser (name fully percent-encoded), every maven namespace up to 5 tokens over {/ a %2F .}; lenses: typed vs type-agnostic differential on every node; non-trivial = a typed value was produced or a typed/untyped disagreement had to be classified",
        "C10" => "every node of every token lens; non-trivial = accepted (into_builder().build() is then compared with the value)",
        "C13" => "parser: every node of the lenses as String and as SmallString (acceptance, error text, accessors, canonical string compared); builder: every Unicode scalar value as type and after a letter, all ASCII pairs as type, all type strings up to the bound over {a z A Z m M 9 . + - ! E-acute}, and all pairs of field values over the 19-string universe x 4 types x 4 qualifier sets, each built with String, Cow::Owned, Cow::Borrowed and SmallString and the outcomes compared; non-trivial = accepted lens nodes and every builder case",
        "C15" => "all 2^len case variants of the seven names; every string up to the bound over the letters of the names in both cases plus look-alikes; every scalar value inserted at and substituted at every position of every name; deletions, transpositions, paddings, 35 other type names; non-trivial = every string except substitutions that reproduce the original letter",
        "C16" => "every node of the token lenses, every spelling with at most d deviations and every single-fault string of the spelling explorer, as GenericPurl<String> and Purl: deserialising the JSON string (serde_json::from_str, from_value, value::StringDeserializer) succeeds exactly when from_str does, with equal value and the same error text; serialising gives exactly the canonical string; JSON round trip is the identity; eight non-string JSON values around each accepted PURL are refused. Every string is non-trivial",
        "C17" => "one deterministic input stream (token lenses at n-1, spellings with at most one deviation, builder field pairs x qualifier sets x types) is run by the same harness source built once per feature set; outcome lines (error text, or type/accessors/canonical string) are hashed per chunk and the digests compared; non-trivial = every input of the stream (it is executed in every build)",
        "C19" => "pools of values from the lenses (parser) and the builder product, at most two instances per accessor view, for String, SmallString, Cow (borrowed/owned mixed) and PackageType; ALL pairs of each pool are examined: == iff canonical strings equal, equal => same hash, cmp Equal iff ==, cmp antisymmetric, and with the pool sorted by cmp every i<j satisfies s[i]<=s[j] (total preorder => transitivity, totality); distinct_nontrivial = distinct canonical strings over the pools",
        "C18" => "every string up to the bound over {a B / : . @ e-acute} and every scalar value inside a fixed frame as combined name for each of the seven types (split compared with a reference split; built value compared; inverse applied to the built value); lenses: every typed PURL accepted that satisfies the side condition is fed back through combined_name(); non-trivial = forward cases, and lens nodes whose side condition holds",
        _ => "",
    }
}

pub struct Check {
    pub prop: &'static str,
    pub tier: Tier,
    pub seed: i64,
    pub started: Instant,
    pub total: Acc,
    pub stages: Vec<Value>,
    pub bounds: Vec<Value>,
    pub level: &'static str,
    pub states: Option<u64>,
    pub transitions: Option<u64>,
    pub traces: Option<u64>,
    pub extra: BTreeMap<String, Value>,
    pub exhaustive: bool,
}

impl Check {
    pub fn new(prop: &'static str, tier: Tier, seed: i64, started: Instant) -> Self {
        let level = match prop {
            "C05" => "fault_enumeration",
            "C09" | "C11" | "C12" | "C14" => "model_checking",
            _ => "exploration",
        };
        Check { prop, tier, seed, started, total: Acc::new(), stages: vec![], bounds: vec![], level, states: None, transitions: None, traces: None, extra: BTreeMap::new(), exhaustive: true }
    }

    pub fn add_stage(&mut self, a: Acc, report: Value) {
        self.bounds.push(report.clone());
        self.stages.push(report);
        self.total.merge(a);
    }

    pub fn lens_stage(&mut self, plans: Vec<Plan>) {
        let se = StringEval { prop: self.prop, mon: monitors_for(self.prop) };
        for (i, pl) in plans.iter().enumerate() {
            let earlier: Vec<&Plan> = plans[..i].iter().collect();
            let t0 = Instant::now();
            let mut a = lens::explore(&pl.lens, pl.n, |s, acc| {
                let nt = se.eval(s, acc);
                if nt {
                    if earlier.iter().any(|e| e.lens.contains(s, e.n)) {
                        acc.count("nontrivial_strings_already_counted_in_an_earlier_lens");
                    } else {
                        acc.nontrivial += 1;
                        acc.sample(|| json!(s));
                    }
                }
            });
            self.stages.push(json!({
                "engine": "A-lens", "lens": pl.lens.name, "prefixes": pl.lens.prefixes, "alphabet": pl.lens.alphabet, "suffixes": pl.lens.suffixes,
                "max_tokens": pl.n, "strings": a.evals, "expected_strings": pl.lens.size(pl.n), "accepted": a.accepted,
                "nontrivial_new": a.nontrivial, "wall_s": t0.elapsed().as_secs_f64(),
            }));
            self.bounds.push(json!({"lens": pl.lens.name, "max_tokens": pl.n}));
            if a.evals != pl.lens.size(pl.n) {
                println!("MACHINERY: lens {} was not enumerated completely ({} of {})", pl.lens.name, a.evals, pl.lens.size(pl.n));
                self.exhaustive = false;
            }
            a.samples.truncate(2);
            self.total.merge(a);
        }
    }

    /// Every Unicode scalar value, raw and percent-encoded in both hex cases, in each of the five
    /// component positions of a parsed string (and in a typed name).
    pub fn scalar_position_stage(&mut self, ascii_only: bool) {
        // (C06 runs every monitor on the lenses; on the 2*10^7 strings of this stage it makes the calls
        // whose panics it is about - parse x3, format, Debug, clone, re-build, typed checksum - and
        // leaves the value comparisons to the checks of the other properties, which run the same strings)
        let mon = if self.prop == "C06" { M06 | M12 } else { monitors_for(self.prop) };
        let se = StringEval { prop: self.prop, mon };
        let t0 = Instant::now();
        // (component positions, and the positions where only a few ASCII characters are legal: type and qualifier key)
        let frames: [(&str, &str); 11] = [("pkg:t/", "/n"), ("pkg:t/x", ""), ("pkg:t/n@1", ""), ("pkg:t/n?k=v", ""), ("pkg:t/n#s/", "/t"), ("pkg:nuget/A", ""), ("pkg:", "/n"), ("pkg:t", "x/n"), ("pkg:t/n?", "=v"), ("pkg:t/n?k", "z=v"), ("pkg:t/n?checksum=", ":00")];
        let mut a = sweeps::for_all_scalars(|c, acc| {
            if ascii_only && !c.is_ascii() {
                return;
            }
            let mut buf = [0u8; 4];
            let bytes = c.encode_utf8(&mut buf).as_bytes();
            let upper: String = bytes.iter().map(|b| format!("%{:02X}", b)).collect();
            let lower: String = bytes.iter().map(|b| format!("%{:02x}", b)).collect();
            let raw = c.to_string();
            // leading position of each component (quick: below U+3000 only)
            let lead: [(&str, &str); 10] = [("p", "g:t/n"), ("", "kg:t/n"), ("pk", ":t/n"), ("pkg:t/", "x"), ("pkg:t/n@", "1"), ("pkg:t/n?k=", "v"), ("pkg:t/n#", "s"), ("pkg:t/", "g/n"), ("pkg:t/n#s/t", ""), ("pkg:t/g", "/n")];
            // quick tier: the six component frames for every scalar value; the positions added later
            // (type, key, algorithm, leading / trailing) for every scalar below U+3000, every cased
            // supplementary-plane script, the boundaries of the UTF-8 lengths and every 257th value beyond
            let cu = c as u32;
            let dense = self.tier == Tier::Thorough
                || cu < 0x3000
                || (0xFF00..0xFFF0).contains(&cu)
                || (0x10400..0x10500).contains(&cu)
                || (0x10C80..0x10D00).contains(&cu)
                || (0x118A0..0x118E0).contains(&cu)
                || (0x16E40..0x16E80).contains(&cu)
                || (0x1E900..0x1E950).contains(&cu)
                || matches!(cu, 0xD7FF | 0xE000 | 0xFFFD | 0xFFFF | 0x10000 | 0x10FFFF)
                || cu % 257 == 0;
            let lead_on = dense;
            for (fi, (p, s)) in frames.iter().chain(lead.iter().filter(|_| lead_on)).enumerate() {
                if fi >= 6 && !dense {
                    continue;
                }
                for (i, spelled) in [&raw, &upper, &lower].iter().enumerate() {
                    if i == 2 && lower == upper {
                        continue;
                    }
                    let text = format!("{p}{spelled}{s}");
                    if se.eval(&text, acc) {
                        acc.nontrivial += 1;
                    }
                }
            }
            if c == '\u{212A}' || c == '&' {
                acc.sample(|| json!(format!("pkg:t/n?k=v{upper}")));
            }
        });
        a.samples.truncate(2);
        self.stages.push(json!({"engine": "E-scalar-positions", "scalar_values": sweeps::N_SCALARS, "frames": frames.iter().map(|(p, s)| format!("{p}<c>{s}")).collect::<Vec<_>>(), "spellings": ["raw", "%XX", "%xx"], "ascii_only": ascii_only,
            "added_frames": "type, key and algorithm positions and the leading / trailing position of every component: every scalar value in the thorough tier; in the quick tier every scalar below U+3000, the full-width forms, every cased supplementary-plane script, the UTF-8 length boundaries and every 257th value",
            "strings": a.evals, "accepted": a.accepted, "wall_s": t0.elapsed().as_secs_f64()}));
        self.bounds.push(json!({"scalar_position_strings": a.evals}));
        self.total.merge(a);
    }

    /// A9: the one-edit neighbourhood of the upstream conformance corpus
    pub fn corpus_stage(&mut self) {
        let se = StringEval { prop: self.prop, mon: monitors_for(self.prop) };
        let inputs = lens::corpus_edits();
        if inputs.is_empty() {
            println!("MACHINERY: the conformance corpus under /repo/xtask could not be read");
            self.exhaustive = false;
            return;
        }
        let t0 = Instant::now();
        let mut a = par_items(inputs.len(), threads(), |i, acc| {
            if se.eval(&inputs[i], acc) {
                acc.nontrivial += 1;
                if i % 50_000 == 17 {
                    acc.sample(|| json!(inputs[i]));
                }
            }
        });
        a.samples.truncate(3);
        self.stages.push(json!({"engine": "A9-corpus-one-edit", "strings": a.evals, "accepted": a.accepted, "nontrivial": a.nontrivial, "wall_s": t0.elapsed().as_secs_f64()}));
        self.bounds.push(json!({"corpus_one_edit_strings": inputs.len()}));
        self.total.merge(a);
    }

    /// A11: the size ladder (every length / every count up to the bound)
    pub fn ladder_stage(&mut self) {
        let se = StringEval { prop: self.prop, mon: monitors_for(self.prop) };
        let inputs = lens::ladder(self.tier);
        let t0 = Instant::now();
        let mut a = par_items(inputs.len(), threads(), |i, acc| {
            if se.eval(&inputs[i], acc) {
                acc.nontrivial += 1;
                if i % 40_000 == 4321 {
                    acc.sample(|| json!(inputs[i]));
                }
            }
        });
        a.samples.truncate(3);
        self.stages.push(json!({"engine": "A11-size-ladder", "strings": a.evals, "accepted": a.accepted, "nontrivial": a.nontrivial, "max_len": inputs.iter().map(|s| s.len()).max(),
            "every_component_length_up_to": 300, "every_count_up_to": if self.tier == Tier::Quick { 80 } else { 300 }, "wall_s": t0.elapsed().as_secs_f64()}));
        self.bounds.push(json!({"size_ladder_strings": inputs.len()}));
        self.total.merge(a);
    }

    pub fn pumping_stage(&mut self) {
        let se = StringEval { prop: self.prop, mon: monitors_for(self.prop) };
        let inputs = lens::pumping(self.tier);
        let t0 = Instant::now();
        let slow = std::sync::Mutex::new((0f64, 0usize));
        let a = par_items(inputs.len(), threads(), |i, acc| {
            let t = Instant::now();
            if se.eval(&inputs[i], acc) {
                acc.nontrivial += 1;
            }
            let d = t.elapsed().as_secs_f64();
            let mut g = slow.lock().unwrap();
            if d > g.0 {
                *g = (d, i);
            }
        });
        let slowest = *slow.lock().unwrap();
        if slowest.0 > 120.0 {
            self.total.violate(Violation {
                prop: "C06",
                kind: "hang".into(),
                case: json!({"engine": "pumping", "index": slowest.1, "len": inputs[slowest.1].len(), "head": inputs[slowest.1].chars().take(40).collect::<String>()}),
                detail: format!("one input took {:.0}s", slowest.0),
            });
        }
        self.stages.push(json!({"engine": "A8-pumping", "strings": a.evals, "max_len": inputs.iter().map(|s| s.len()).max(), "wall_s": t0.elapsed().as_secs_f64(), "slowest_single_input_s": slowest.0, "slowest_input_len": inputs.get(slowest.1).map(|s| s.len())}));
        self.bounds.push(json!({"pumping_inputs": inputs.len()}));
        self.total.merge(a);
    }

    pub fn finish(mut self) -> i32 {
        let prop = self.prop;
        self.extra.insert("stages".to_owned(), Value::Array(self.stages));
        let rep = Report {
            prop,
            level: self.level,
            tier: self.tier,
            seed: self.seed,
            rule: rule_for(prop).to_owned(),
            exhaustive: self.exhaustive,
            bounds: Value::Array(self.bounds),
            assumptions: vec![
                "rustc/std (char::to_lowercase, catch_unwind, HashMap) are trusted".into(),
                "statements hold for the listed alphabets, bounds and universes only; VERIF_SEED selects nothing (every enumeration is deterministic)".into(),
            ],
            extra: self.extra,
            states: self.states,
            transitions: self.transitions,
            traces_validated: self.traces,
        };
        finish(rep, self.total, self.started, &|case| replay_case(prop, case), &|case| crate::hist::context_search(prop, case, &|c| replay_case(prop, c)))
    }
}
