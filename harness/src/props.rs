//! One entry per property: which engines, which oracle, which bounds.

use std::collections::BTreeMap;
use std::time::Instant;

use serde_json::{json, Value};

use crate::common::*;
use crate::lens::{self, Lens};
use crate::monitors::*;

pub fn run(prop: &str, tier: Tier, seed: i64, replay: Option<&str>) -> i32 {
    let started = Instant::now();
    if let Some(path) = replay {
        return run_replay(prop, path);
    }
    match prop {
        "selftest" => crate::selftest::run(),
        "C01" | "C02" | "C04" | "C05" | "C06" | "C07" | "C10" | "C13" => string_check(prop, tier, seed, started),
        _ => {
            eprintln!("MACHINERY: no check for {prop}");
            2
        },
    }
}

fn prop_static(p: &str) -> &'static str {
    const IDS: [&str; 19] = [
        "C01", "C02", "C03", "C04", "C05", "C06", "C07", "C08", "C09", "C10", "C11", "C12", "C13", "C14", "C15", "C16", "C17", "C18", "C19",
    ];
    IDS.iter().find(|x| **x == p).copied().expect("unknown property id")
}

/// Re-run exactly one recorded case without any explorer.
fn run_replay(prop: &str, path: &str) -> i32 {
    let text = match std::fs::read_to_string(path) {
        Ok(t) => t,
        Err(e) => {
            eprintln!("MACHINERY: cannot read {path}: {e}");
            return 2;
        },
    };
    let v: Value = serde_json::from_str(&text).expect("replay file is not JSON");
    let case = if v.get("case").is_some() { v["case"].clone() } else { v.clone() };
    let prop = prop_static(prop);
    match replay_case(prop, &case) {
        None => {
            eprintln!("MACHINERY: cannot replay this kind of case: {case}");
            2
        },
        Some(vs) => {
            let mine: Vec<&Violation> = vs.iter().filter(|x| x.prop == prop).collect();
            for x in &mine {
                println!("{}: {} -- {}", x.kind, x.case, x.detail);
            }
            if mine.is_empty() {
                println!("replay: property {prop} holds on this case");
                0
            } else {
                println!("VIOLATION property={prop} replay={path}");
                1
            }
        },
    }
}

pub fn monitors_for(prop: &str) -> u32 {
    match prop {
        "C01" => M01,
        "C02" => M02,
        "C03" => M03,
        "C04" => M04,
        "C05" => M05,
        "C06" => M06 | M01 | M03 | M04 | M07 | M10 | M12,
        "C07" => M07,
        "C08" => M08,
        "C10" => M10,
        "C12" => M12,
        "C13" => M13,
        _ => 0,
    }
}

/// Replay dispatcher: every engine's case format is understood here.
pub fn replay_case(prop: &'static str, case: &Value) -> Option<Vec<Violation>> {
    match case["engine"].as_str()? {
        "string" => {
            let s = case["input"].as_str()?;
            let se = StringEval { prop, mon: monitors_for(prop) };
            let mut acc = Acc::new();
            se.eval(s, &mut acc);
            Some(acc.violations)
        },
        _ => None,
    }
}

struct Plan {
    lens: Lens,
    n: usize,
}

fn plans_for(prop: &str, tier: Tier) -> Vec<Plan> {
    let all = lens::all_lenses();
    let pick = |names: &[&str]| -> Vec<Lens> { names.iter().map(|n| lens::lens(n)).collect() };
    let base: Vec<Lens> = match prop {
        "C07" => pick(&["A3", "A1a", "A1b"]),
        "C13" => pick(&["A2-", "A1a", "A1b", "A3", "A4", "A5a", "A5b", "A6"]),
        _ => all.clone(),
    };
    let mut plans: Vec<Plan> = base.iter().map(|l| Plan { lens: l.clone(), n: l.bound(tier) }).collect();
    if matches!(prop, "C01" | "C04" | "C06" | "C07" | "C10" | "C02" | "C05") {
        for name in ["A1b", "A3", "A5b", "A6"] {
            let l = lens::lens(name);
            if name == "A3" {
                // A3 has two prefixes; build typed copies by hand
                let mut c = l.clone();
                c.name = "A3-typed";
                c.prefixes = vec!["pkg:npm/", "pkg:maven/x/", "pkg:golang/n#"];
                let n = c.bound(tier).saturating_sub(1);
                plans.push(Plan { lens: c, n });
                continue;
            }
            let mut single = l.clone();
            single.prefixes.truncate(1);
            let mut c = lens::typed_copy(&single, 1);
            c.name = match name {
                "A1b" => "A1b-typed",
                "A5b" => "A5b-typed",
                _ => "A6-typed",
            };
            let n = c.bound(tier);
            plans.push(Plan { lens: c, n });
        }
    }
    plans
}

fn string_check(prop: &str, tier: Tier, seed: i64, started: Instant) -> i32 {
    let prop = prop_static(prop);
    let se = StringEval { prop, mon: monitors_for(prop) };
    let plans = plans_for(prop, tier);
    let mut total = Acc::new();
    let mut lens_report: Vec<Value> = Vec::new();
    for (i, pl) in plans.iter().enumerate() {
        let earlier: Vec<&Plan> = plans[..i].iter().collect();
        let t0 = Instant::now();
        let mut a = lens::explore(&pl.lens, pl.n, |s, acc| {
            let nt = se.eval(s, acc);
            if nt {
                if earlier.iter().any(|e| e.lens.contains(s, e.n)) {
                    acc.count("nontrivial_strings_already_counted_in_an_earlier_lens");
                } else {
                    acc.nontrivial += 1;
                    acc.sample(|| json!(s));
                }
            }
        });
        lens_report.push(json!({
            "lens": pl.lens.name, "prefixes": pl.lens.prefixes, "alphabet": pl.lens.alphabet, "suffixes": pl.lens.suffixes,
            "max_tokens": pl.n, "strings": a.evals, "expected_strings": pl.lens.size(pl.n), "accepted": a.accepted,
            "nontrivial_new": a.nontrivial, "wall_s": t0.elapsed().as_secs_f64(),
        }));
        assert_eq!(a.evals, pl.lens.size(pl.n), "lens {} was not enumerated completely", pl.lens.name);
        // keep a few samples per lens
        a.samples.truncate(2);
        total.merge(a);
    }
    // A8 pumping (C06 and the round-trip properties)
    let mut pump_n = 0u64;
    if matches!(prop, "C06" | "C01" | "C10" | "C04") {
        let inputs = lens::pumping(tier);
        pump_n = inputs.len() as u64;
        let t0 = Instant::now();
        let mut slowest = (0f64, 0usize);
        let a = par_items(inputs.len(), threads(), |i, acc| {
            let nt = se.eval(&inputs[i], acc);
            if nt {
                acc.nontrivial += 1;
            }
        });
        // watchdog figure: time the slowest family members again, single-threaded
        for (i, s) in inputs.iter().enumerate().rev().take(4) {
            let t = Instant::now();
            let mut scratch = Acc::new();
            se.eval(s, &mut scratch);
            let d = t.elapsed().as_secs_f64();
            if d > slowest.0 {
                slowest = (d, i);
            }
        }
        if slowest.0 > 120.0 {
            total.violate(Violation { prop: "C06", kind: "hang".into(), case: json!({"engine":"pumping","index":slowest.1}), detail: format!("one input took {:.0}s", slowest.0) });
        }
        lens_report.push(json!({"lens":"A8-pumping","strings":a.evals,"max_len":inputs.iter().map(|s| s.len()).max(),"wall_s":t0.elapsed().as_secs_f64(),"slowest_single_input_s":slowest.0}));
        total.merge(a);
    }
    let rule = match prop {
        "C01" => "every node of every token lens (all strings P.t1..tk.S, k<=n) is parsed as GenericPurl<String>, GenericPurl<SmallString> and Purl; non-trivial = accepted by at least one of them (the round trip is then executed); distinct = distinct strings (alphabets are uniquely decodable, strings already counted in an earlier lens are not counted again)",
        "C02" => "every node of every token lens; non-trivial = the independent reference parser judges the string and finds no defect (the implementation must then return exactly the reference components); distinct strings as for C01",
        "C04" => "every node of every token lens, three instantiations; non-trivial = accepted (invariants are then read through the accessors)",
        "C05" => "every node of every token lens; non-trivial = the reference parser judges the string and finds at least one defect (must be refused, with the matching error if it is the only defect)",
        "C06" => "every node of every token lens plus the pumping family up to 1 MiB; every string is non-trivial (each is a distinct attempt to make the library panic): from_str x3, to_string, Debug, clone, into_builder, build, typed checksum accessors, all under catch_unwind in a build with overflow checks and debug assertions",
        "C07" => "every node of the dot-segment and separator lenses and their typed copies; non-trivial = accepted and the input has a namespace or subpath region",
        "C10" => "every node of every token lens; non-trivial = accepted (into_builder().build() is then compared with the value)",
        "C13" => "every node of the lenses parsed as String and as SmallString; non-trivial = accepted by the String instantiation (refusals are compared too)",
        _ => "",
    };
    let mut extra = BTreeMap::new();
    extra.insert("lenses".to_owned(), Value::Array(lens_report));
    extra.insert("pumping_inputs".to_owned(), json!(pump_n));
    let rep = Report {
        prop,
        level: "exploration",
        tier,
        seed,
        rule: rule.to_owned(),
        exhaustive: true,
        bounds: json!({"lenses": plans.iter().map(|p| json!({"lens": p.lens.name, "max_tokens": p.n})).collect::<Vec<_>>()}),
        assumptions: vec![
            "rustc/std (char::to_lowercase, catch_unwind) are trusted".into(),
            "statements hold for the listed alphabets and token bounds only; VERIF_SEED selects nothing (enumeration is deterministic)".into(),
        ],
        extra,
        states: None,
        transitions: None,
        traces_validated: None,
    };
    finish(rep, total, started, &|case| replay_case(prop, case))
}
