//! Value monitors and the per-string evaluation shared by all input engines.

use purl::GenericPurl;
use serde_json::{json, Value};

use crate::common::*;
use crate::refmodel::{self as R, Mode};

pub const M01: u32 = 1 << 0; // round trip
pub const M02: u32 = 1 << 1; // accepted by R => accepted with R's tuple
pub const M03: u32 = 1 << 2; // independent renderer
pub const M04: u32 = 1 << 3; // invariants
pub const M05: u32 = 1 << 4; // R reports defects => refused (with the class if single)
pub const M06: u32 = 1 << 5; // no panic
pub const M07: u32 = 1 << 6; // segment structure
pub const M08: u32 = 1 << 7; // typed vs generic differential
pub const M10: u32 = 1 << 8; // rebuild identity
pub const M13: u32 = 1 << 9; // String vs SmallString differential
pub const M16: u32 = 1 << 10; // serde
pub const M12: u32 = 1 << 11; // checksum typed read-back
pub const M18: u32 = 1 << 12; // combined-name inverse on typed values

pub fn case_string(flavor: &str, input: &str) -> Value {
    json!({"engine": "string", "flavor": flavor, "input": input})
}

fn diag(o: &Obs) -> String {
    let mut d = String::new();
    if o.quals.iter().any(|(_, v)| v.contains('&')) {
        d.push_str(" [qualifier value contains '&']");
    }
    if o.ty == "maven" && o.ns.as_deref().map(|n| n.split('/').all(str::is_empty)).unwrap_or(false) {
        d.push_str(" [maven namespace without a non-empty segment]");
    }
    d
}

fn has_titlecase(s: &str) -> bool {
    s.chars().any(|c| !c.is_ascii() && !c.is_uppercase() && !c.to_lowercase().eq([c]))
}

/// M01 — parse(to_string(p)) == p and formats identically.
pub fn m01<T: PFlavor>(p: &GenericPurl<T>, case: &Value, acc: &mut Acc) {
    acc.calls += 3;
    let c = p.to_string();
    match T::parse(&c) {
        Err(e) => acc.violate(Violation {
            prop: "C01",
            kind: "roundtrip-reject".into(),
            case: case.clone(),
            detail: format!("canonical string {:?} is refused: {}{}", c, T::err_text(&e), diag(&observe(p))),
        }),
        Ok(p2) => {
            if &p2 != p {
                acc.violate(Violation {
                    prop: "C01",
                    kind: "roundtrip-neq".into(),
                    case: case.clone(),
                    detail: format!("canonical string {:?} parses to a different PURL: {:?} vs {:?}{}", c, observe(&p2), observe(p), diag(&observe(p))),
                });
            }
            let c2 = p2.to_string();
            if c2 != c {
                acc.violate(Violation {
                    prop: "C01",
                    kind: "roundtrip-unstable".into(),
                    case: case.clone(),
                    detail: format!("second formatting differs: {:?} then {:?}{}", c, c2, diag(&observe(p))),
                });
            }
        },
    }
}

/// M03 — to_string() equals the independent renderer fed from the accessors.
pub fn m03<T: Flavor>(p: &GenericPurl<T>, case: &Value, acc: &mut Acc) {
    acc.calls += 1;
    let o = observe(p);
    let want = R::render(&o);
    let got = p.to_string();
    if want != got {
        acc.violate(Violation {
            prop: "C03",
            kind: "render-differs".into(),
            case: case.clone(),
            detail: format!("to_string() = {:?}, documented shape = {:?}{}", got, want, diag(&o)),
        });
    }
    if !got.bytes().all(|b| (0x21..=0x7E).contains(&b)) {
        acc.violate(Violation {
            prop: "C03",
            kind: "render-not-printable".into(),
            case: case.clone(),
            detail: format!("to_string() = {:?} is not printable ASCII", got),
        });
    }
}

/// M04 — the invariants of C04, read through the accessors only.
pub fn m04<T: purl::PurlShape>(p: &GenericPurl<T>, builtin_type: bool, case: &Value, acc: &mut Acc) {
    acc.calls += 1;
    let mut bad: Vec<String> = Vec::new();
    if p.name().is_empty() {
        bad.push("empty name".into());
    }
    if p.namespace() == Some("") {
        bad.push("namespace() == Some(\"\")".into());
    }
    if p.version() == Some("") {
        bad.push("version() == Some(\"\")".into());
    }
    if p.subpath() == Some("") {
        bad.push("subpath() == Some(\"\")".into());
    }
    let mut prev: Option<String> = None;
    for (k, v) in p.qualifiers().iter() {
        let ks = k.as_str();
        if !R::valid_key(ks) {
            bad.push(format!("invalid key {:?}", ks));
        }
        if ks.bytes().any(|b| b.is_ascii_uppercase()) {
            bad.push(format!("key {:?} not lower-case", ks));
        }
        if let Some(pk) = &prev {
            if pk.as_str() >= ks {
                bad.push(format!("keys not strictly ascending: {:?} then {:?}", pk, ks));
            }
        }
        prev = Some(ks.to_owned());
        if v.is_empty() {
            bad.push(format!("empty value for key {:?}", ks));
        }
        if p.qualifiers().get(ks) != Some(v) {
            bad.push(format!("get({:?}) does not return the value", ks));
        }
    }
    if p.qualifiers().len() != p.qualifiers().iter().count() {
        bad.push("len() differs from iteration".into());
    }
    if builtin_type {
        let t = p.package_type().package_type();
        if t.is_empty() || !t.bytes().all(|b| b.is_ascii_lowercase() || b.is_ascii_digit() || b == b'.' || b == b'+' || b == b'-') {
            bad.push(format!("type string {:?} not normalised", t));
        }
    }
    if let Some(c) = p.qualifiers().get("checksum") {
        let mut prev_alg: Option<&str> = None;
        for entry in c.split(',') {
            match entry.rfind(':') {
                None => bad.push(format!("checksum entry {:?} without ':'", entry)),
                Some(i) => {
                    let (alg, hex) = (&entry[..i], &entry[i + 1..]);
                    if let Some(pa) = prev_alg {
                        if pa >= alg {
                            bad.push(format!("checksum algorithms not strictly ascending: {:?} then {:?}", pa, alg));
                        }
                    }
                    prev_alg = Some(alg);
                    if hex.len() % 2 != 0 || !hex.bytes().all(|b| b.is_ascii_hexdigit()) {
                        bad.push(format!("checksum hex {:?} malformed", hex));
                    }
                },
            }
        }
        if c.bytes().any(|b| b.is_ascii_uppercase()) {
            bad.push(format!("checksum {:?} contains ASCII upper-case", c));
        }
    }
    if !bad.is_empty() {
        acc.violate(Violation { prop: "C04", kind: format!("invariant:{}", bad[0].split(' ').next().unwrap_or("")), case: case.clone(), detail: bad.join("; ") });
    }
}

/// M07 — segment structure against the raw pieces of the input.
pub fn m07<T: Flavor>(input: &str, p: &GenericPurl<T>, case: &Value, acc: &mut Acc) -> bool {
    let Some(raw) = R::raw_split(input) else { return false };
    let mut interesting = false;
    // namespace
    let want_ns: Vec<Option<String>> = raw.ns.map(|n| n.split('/').filter(|x| !x.is_empty()).map(R::pct_decode).collect()).unwrap_or_default();
    if raw.ns.is_some() {
        interesting = true;
    }
    let got_ns: Vec<&str> = p.namespace().map(|n| n.split('/').collect()).unwrap_or_default();
    let mut bad: Vec<String> = Vec::new();
    if got_ns.iter().any(|s| s.is_empty()) {
        bad.push(format!("namespace {:?} has an empty segment or a leading/trailing '/'", p.namespace()));
    }
    if want_ns.iter().any(|w| w.is_none()) {
        bad.push("accepted although a namespace piece is not valid UTF-8".into());
    } else {
        let w: Vec<&str> = want_ns.iter().map(|x| x.as_deref().unwrap()).collect();
        if w != got_ns {
            bad.push(format!("namespace segments {:?} are not the decoded raw pieces {:?}", got_ns, w));
        }
    }
    // subpath
    if raw.subpath.is_some() {
        interesting = true;
    }
    let got_sp: Vec<&str> = p.subpath().map(|n| n.split('/').collect()).unwrap_or_default();
    if got_sp.iter().any(|s| s.is_empty() || *s == "." || *s == "..") {
        bad.push(format!("subpath {:?} has an empty, '.' or '..' segment", p.subpath()));
    }
    let mut want_sp: Vec<String> = Vec::new();
    let mut sp_bad_utf8 = false;
    for piece in raw.subpath.map(|s| s.split('/').collect::<Vec<_>>()).unwrap_or_default() {
        if piece.is_empty() || piece == "." || piece == ".." {
            continue;
        }
        match R::pct_decode(piece) {
            None => sp_bad_utf8 = true,
            Some(d) => {
                if d == "." || d == ".." {
                    continue; // may be skipped (or the string refused); must not be reported
                }
                want_sp.push(d);
            },
        }
    }
    if sp_bad_utf8 {
        bad.push("accepted although a subpath piece is not valid UTF-8".into());
    } else if want_sp.iter().map(String::as_str).collect::<Vec<_>>() != got_sp {
        bad.push(format!("subpath segments {:?} are not the decoded non-skipped raw pieces {:?}", got_sp, want_sp));
    }
    if !bad.is_empty() {
        acc.violate(Violation { prop: "C07", kind: "segments".into(), case: case.clone(), detail: bad.join("; ") });
    }
    interesting
}

/// M10 — into_builder().build() is the identity.
pub fn m10<T: Flavor>(p: &GenericPurl<T>, case: &Value, acc: &mut Acc) {
    acc.calls += 2;
    match p.clone().into_builder().build() {
        Err(e) => acc.violate(Violation {
            prop: "C10",
            kind: "rebuild-fails".into(),
            case: case.clone(),
            detail: format!("re-building {:?} fails: {}{}", p.to_string(), T::err_text(&e), diag(&observe(p))),
        }),
        Ok(p2) => {
            if &p2 != p {
                acc.violate(Violation {
                    prop: "C10",
                    kind: "rebuild-neq".into(),
                    case: case.clone(),
                    detail: format!("re-built value differs: {:?} vs {:?}", observe(&p2), observe(p)),
                });
            } else if p2.to_string() != p.to_string() {
                acc.violate(Violation { prop: "C10", kind: "rebuild-string".into(), case: case.clone(), detail: "re-built value prints differently".into() });
            }
        },
    }
}

/// M12 — the checksum qualifier of a PURL reads back through the typed accessor as the same
/// entries that its text lists, and its text is the canonical form of R.
pub fn m12<T: Flavor>(p: &GenericPurl<T>, case: &Value, acc: &mut Acc) -> bool {
    use purl::qualifiers::well_known::Checksum;
    // (found by iteration, not by lookup: a collection whose order is broken hides the pair from `get`)
    let Some(text) = p.qualifiers().iter().find(|(k, _)| k.as_str().eq_ignore_ascii_case("checksum")).map(|(_, v)| v) else { return false };
    if p.qualifiers().get("checksum") != Some(text) {
        acc.violate(Violation { prop: "C12", kind: "checksum-not-retrievable".into(), case: case.clone(), detail: format!("the PURL lists the qualifier checksum={:?} but get(\"checksum\") gives {:?}", text, p.qualifiers().get("checksum")) });
    }
    acc.calls += 1;
    match R::checksum_canonical(text) {
        None => acc.violate(Violation { prop: "C12", kind: "checksum-not-wellformed".into(), case: case.clone(), detail: format!("checksum text {:?} of an accepted PURL is malformed", text) }),
        Some(c) => {
            if c != text {
                let note = if has_titlecase(text) { " [titlecase]" } else { "" };
                acc.violate(Violation { prop: "C12", kind: "checksum-not-canonical".into(), case: case.clone(), detail: format!("checksum text {:?} is not canonical ({:?}){}", text, c, note) });
            }
        },
    }
    match p.qualifiers().try_get_typed::<Checksum>() {
        Ok(Some(cs)) => {
            let mut got: Vec<(String, String)> = cs.iter().map(|(k, v)| (k.to_owned(), v.raw().to_owned())).collect();
            got.sort();
            let mut want: Vec<(String, String)> = text
                .split(',')
                .filter_map(|e| e.rfind(':').map(|i| (e[..i].to_owned(), e[i + 1..].to_owned())))
                .collect();
            want.sort();
            if got != want {
                let note = if has_titlecase(text) { " [titlecase]" } else { "" };
                acc.violate(Violation { prop: "C12", kind: "checksum-typed-readback".into(), case: case.clone(), detail: format!("typed accessor gives {:?}, text lists {:?}{}", got, want, note) });
            }
            for (k, v) in &want {
                acc.calls += 1;
                if cs.get_raw(k) != Some(v.as_str()) {
                    acc.violate(Violation { prop: "C12", kind: "checksum-get-raw".into(), case: case.clone(), detail: format!("get_raw({:?}) != {:?}", k, v) });
                }
                match cs.get::<Vec<u8>>(k) {
                    Ok(Some(b)) if hex::encode(&b) == *v => {},
                    other => acc.violate(Violation { prop: "C12", kind: "checksum-get".into(), case: case.clone(), detail: format!("get({:?}) = {:?}, expected bytes of {:?}", k, other, v) }),
                }
            }
        },
        other => acc.violate(Violation { prop: "C12", kind: "checksum-typed-readback".into(), case: case.clone(), detail: format!("typed accessor fails on an accepted PURL: {:?}", other.map(|o| o.is_some())) }),
    }
    true
}

fn shape_sig(o: &Obs) -> (u8, bool, u8, u8, bool) {
    (
        o.ns.as_deref().map(|n| n.split('/').count().min(3) as u8).unwrap_or(0),
        o.version.is_some(),
        o.quals.len().min(3) as u8,
        o.subpath.as_deref().map(|n| n.split('/').count().min(3) as u8).unwrap_or(0),
        o.quals.iter().any(|(k, _)| k == "checksum"),
    )
}

/// Outcome of one flavour on one string.
pub enum Outcome<T: Flavor> {
    Ok(GenericPurl<T>),
    Err(ErrClass, String),
    Panic(String),
}

pub fn run_parse<T: PFlavor>(s: &str, acc: &mut Acc) -> Outcome<T> {
    acc.calls += 1;
    match guarded(|| T::parse(s)) {
        Err(msg) => Outcome::Panic(msg),
        Ok(Ok(p)) => Outcome::Ok(p),
        Ok(Err(e)) => Outcome::Err(T::classify(&e), T::err_text(&e)),
    }
}

/// Per-string evaluation, configured by the monitors in `mon`; `prop` decides what counts as
/// non-trivial. Returns whether the string was non-trivial for `prop`.
pub struct StringEval {
    pub prop: &'static str,
    pub mon: u32,
}

impl StringEval {
    pub fn eval(&self, s: &str, acc: &mut Acc) -> bool {
        watch_begin(s);
        let r = self.eval_guarded(s, acc);
        watch_end();
        r
    }

    fn eval_guarded(&self, s: &str, acc: &mut Acc) -> bool {
        match guarded(|| self.eval_inner(s, acc)) {
            Ok(nt) => nt,
            Err(msg) => {
                acc.count("panics");
                acc.sig(&("panic", msg.len()));
                acc.violate(Violation { prop: "C06", kind: "panic".into(), case: case_string("any", s), detail: format!("panic while handling the value parsed from this input: {msg}") });
                self.prop == "C06"
            },
        }
    }

    fn value_monitors<T: PFlavor>(&self, s: &str, p: &GenericPurl<T>, acc: &mut Acc) -> bool {
        let case = case_string(T::NAME, s);
        let mut nt = false;
        if self.mon & M01 != 0 {
            m01(p, &case, acc);
        }
        if self.mon & M03 != 0 {
            m03(p, &case, acc);
        }
        if self.mon & M04 != 0 {
            m04(p, true, &case, acc);
        }
        if self.mon & M07 != 0 {
            nt |= m07(s, p, &case, acc);
        }
        if self.mon & M10 != 0 {
            m10(p, &case, acc);
        }
        if self.mon & M12 != 0 {
            nt |= m12(p, &case, acc);
        }
        if self.mon & M06 != 0 {
            // formatting and re-building must not panic either; results are ignored here
            acc.calls += 3;
            let _ = p.to_string();
            let _ = format!("{:?}", p);
            let _ = p.clone().into_builder().build();
        }
        nt
    }

    fn judge<T: PFlavor>(&self, s: &str, mode: Mode, out: &Outcome<T>, acc: &mut Acc) -> (bool, bool) {
        // returns (nontrivial for C02, nontrivial for C05)
        let r = R::rparse(s, mode);
        if r.unjudged != 0 {
            acc.unjudged += 1;
            for (i, n) in R::UNJUDGED_NAMES.iter().enumerate() {
                if r.unjudged & (1 << i) != 0 {
                    acc.count(n);
                }
            }
            return (false, false);
        }
        acc.judged += 1;
        let case = case_string(T::NAME, s);
        if r.defects == 0 {
            if self.mon & M02 != 0 {
                let want = r.tuple.as_ref().unwrap().to_obs();
                match out {
                    Outcome::Ok(p) => {
                        let got = observe(p);
                        if got != want {
                            let note = if has_titlecase(&format!("{:?}", want)) || has_titlecase(&format!("{:?}", got)) { " [titlecase]" } else { "" };
                            acc.violate(Violation { prop: "C02", kind: "components-differ".into(), case, detail: format!("parsed {:?}, reference {:?}{}", got, want, note) });
                        }
                    },
                    Outcome::Err(_, t) => acc.violate(Violation { prop: "C02", kind: "legal-spelling-refused".into(), case, detail: format!("refused with {:?}; reference accepts as {:?}", t, want) }),
                    Outcome::Panic(_) => {},
                }
            }
            (true, false)
        } else {
            if self.mon & M05 != 0 {
                let classes = r.classes();
                match out {
                    Outcome::Ok(p) => acc.violate(Violation { prop: "C05", kind: "invalid-accepted".into(), case, detail: format!("accepted as {:?}; reference finds defects {:?}", observe(p), classes.iter().map(|c| c.name()).collect::<Vec<_>>()) }),
                    Outcome::Err(c, t) => {
                        if classes.len() == 1 && *c != classes[0] {
                            acc.violate(Violation { prop: "C05", kind: "wrong-error".into(), case, detail: format!("refused with {:?} ({}), the only defect is {}", t, c.name(), classes[0].name()) });
                        }
                    },
                    Outcome::Panic(_) => {},
                }
            }
            (false, true)
        }
    }

    fn eval_inner(&self, s: &str, acc: &mut Acc) -> bool {
        acc.evals += 1;
        let mut nt = false;
        let gs: Outcome<String> = run_parse(s, acc);
        match &gs {
            Outcome::Ok(p) => {
                acc.accepted += 1;
                acc.sig(&("ok", shape_sig(&observe(p))));
                nt |= self.value_monitors(s, p, acc);
                if matches!(self.prop, "C01" | "C03" | "C04" | "C10" | "C13") {
                    nt = true;
                }
            },
            Outcome::Err(c, _) => {
                acc.rejected += 1;
                acc.sig(&("err", *c));
            },
            Outcome::Panic(m) => {
                acc.count("panics");
                acc.violate(Violation { prop: "C06", kind: "panic".into(), case: case_string("String", s), detail: format!("from_str panicked: {m}") });
            },
        }
        if self.mon & (M02 | M05) != 0 {
            let (a, b) = self.judge(s, Mode::Generic, &gs, acc);
            if (self.prop == "C02" && a) || (self.prop == "C05" && b) {
                nt = true;
            }
        }
        // C12: "a PURL parsed with a checksum qualifier in any equivalent spelling carries that one
        // canonical text" - the text the reference derives from the INPUT (entries sorted by lower-cased
        // algorithm, lower-case hex), not merely some text that is canonical in itself
        if self.mon & M12 != 0 && self.mon & M02 == 0 {
            if let Outcome::Ok(p) = &gs {
                if let Some(got) = p.qualifiers().get("checksum") {
                    let r = R::rparse(s, Mode::Generic);
                    if r.unjudged == 0 && r.defects == 0 {
                        let want = r.tuple.as_ref().and_then(|t| t.quals.get("checksum").cloned());
                        if want.as_deref() != Some(got) {
                            acc.violate(Violation { prop: "C12", kind: "checksum-differs-from-reference".into(), case: case_string("String", s), detail: format!("checksum text {:?}, the input's entries in canonical form are {:?}", got, want) });
                        }
                    }
                }
            }
        }
        #[cfg(feature = "serde")]
        if self.mon & M16 != 0 {
            m16(s, &gs, acc);
            // every string is a non-trivial case for C16: acceptance must agree either way
            nt = true;
        }
        #[cfg(feature = "smart")]
        {
            let ss: Outcome<purl::SmallString> = run_parse(s, acc);
            match (&gs, &ss) {
                (Outcome::Ok(a), Outcome::Ok(b)) => {
                    self.value_monitors(s, b, acc);
                    if self.mon & M13 != 0 && (observe(a) != observe(b) || a.to_string() != b.to_string()) {
                        acc.violate(Violation { prop: "C13", kind: "flavors-differ".into(), case: case_string("String|SmallString", s), detail: format!("String gives {:?}, SmallString gives {:?}", observe(a), observe(b)) });
                    }
                },
                (Outcome::Err(a, ta), Outcome::Err(b, tb)) => {
                    if self.mon & M13 != 0 && (a != b || ta != tb) {
                        acc.violate(Violation { prop: "C13", kind: "flavors-differ".into(), case: case_string("String|SmallString", s), detail: format!("String refuses with {:?}, SmallString with {:?}", ta, tb) });
                    }
                },
                (Outcome::Panic(_), _) => {},
                (_, Outcome::Panic(m)) => {
                    acc.count("panics");
                    acc.violate(Violation { prop: "C06", kind: "panic".into(), case: case_string("SmallString", s), detail: format!("from_str panicked: {m}") });
                },
                _ => {
                    if self.mon & M13 != 0 {
                        acc.violate(Violation { prop: "C13", kind: "flavors-differ".into(), case: case_string("String|SmallString", s), detail: "one type parameter accepts, the other refuses".into() });
                    }
                },
            }
        }
        #[cfg(feature = "typed")]
        {
            let ts: Outcome<purl::PackageType> = run_parse(s, acc);
            match &ts {
                Outcome::Ok(p) => {
                    acc.count("typed_accepted");
                    acc.sig(&("typed-ok", p.package_type().name(), shape_sig(&observe(p))));
                    nt |= self.value_monitors(s, p, acc);
                    if matches!(self.prop, "C01" | "C03" | "C04" | "C10") {
                        nt = true;
                    }
                },
                Outcome::Err(c, _) => acc.sig(&("typed-err", *c)),
                Outcome::Panic(m) => {
                    acc.count("panics");
                    acc.violate(Violation { prop: "C06", kind: "panic".into(), case: case_string("PackageType", s), detail: format!("from_str panicked: {m}") });
                },
            }
            if self.mon & (M02 | M05) != 0 {
                let (a, b) = self.judge(s, Mode::Typed, &ts, acc);
                if (self.prop == "C02" && a) || (self.prop == "C05" && b) {
                    nt = true;
                }
            }
            #[cfg(feature = "serde")]
            if self.mon & M16 != 0 {
                m16(s, &ts, acc);
            }
            if self.mon & M08 != 0 {
                nt |= m08(s, &gs, &ts, acc);
            }
            if self.mon & M18 != 0 {
                if let Outcome::Ok(p) = &ts {
                    nt |= crate::sweeps::c18_inverse(p, &case_string("PackageType", s), acc);
                }
            }
        }
        if self.prop == "C06" {
            nt = true;
        }
        nt
    }
}

/// M16 — serde form is exactly the string form (for one type parameter).
#[cfg(feature = "serde")]
pub fn m16<T>(s: &str, out: &Outcome<T>, acc: &mut Acc) -> bool
where
    T: PFlavor + std::str::FromStr,
    <T as purl::PurlShape>::Error: std::fmt::Display + From<<T as std::str::FromStr>::Err>,
{
    use serde::de::IntoDeserializer;
    use serde::Deserialize;
    let case = case_string(T::NAME, s);
    acc.calls += 3;
    let json = serde_json::to_string(s).expect("a string always serialises");
    // "succeeds exactly when parsing succeeds": a deserialiser that panics does neither
    let all = guarded(|| {
        let de: Result<GenericPurl<T>, serde_json::Error> = serde_json::from_str(&json);
        let de2: Result<GenericPurl<T>, serde::de::value::Error> = GenericPurl::<T>::deserialize(IntoDeserializer::<serde::de::value::Error>::into_deserializer(s.to_owned()));
        let de3: Result<GenericPurl<T>, serde_json::Error> = serde_json::from_value(serde_json::Value::String(s.to_owned()));
        // further ways a deserialiser hands a string over: transient (reader), borrowed, plain &str
        let de4: Result<GenericPurl<T>, serde_json::Error> = serde_json::from_reader(std::io::Cursor::new(json.as_bytes()));
        let de5: Result<GenericPurl<T>, serde::de::value::Error> = GenericPurl::<T>::deserialize(serde::de::value::BorrowedStrDeserializer::<serde::de::value::Error>::new(s));
        let de6: Result<GenericPurl<T>, serde::de::value::Error> = GenericPurl::<T>::deserialize(serde::de::value::StrDeserializer::<serde::de::value::Error>::new(s));
        (de, de2, de3, de4.ok(), de5.ok(), de6.ok())
    });
    let (de, de2, de3, de4, de5, de6) = match all {
        Ok(x) => x,
        Err(msg) => {
            if !matches!(out, Outcome::Panic(_)) {
                acc.violate(Violation { prop: "C16", kind: "deserialize-panics".into(), case: case.clone(), detail: format!("from_str returns but deserialising the same string panics: {msg}") });
            }
            acc.violate(Violation { prop: "C06", kind: "panic".into(), case, detail: format!("panic while deserialising: {msg}") });
            return false;
        },
    };
    match (out, [&de4, &de5, &de6]) {
        (Outcome::Err(..), more) if more.iter().any(|x| x.is_some()) => acc.violate(Violation { prop: "C16", kind: "deserialize-accepts".into(), case: case.clone(), detail: "from_str refuses but a reader / borrowed-str / str deserializer accepts".into() }),
        (Outcome::Ok(p), more) => {
            for (name, q) in ["serde_json::from_reader", "BorrowedStrDeserializer", "StrDeserializer"].iter().zip(more.iter()) {
                match q {
                    None => acc.violate(Violation { prop: "C16", kind: "deserialize-refuses".into(), case: case.clone(), detail: format!("from_str accepts but {name} refuses") }),
                    Some(q) if q != p => acc.violate(Violation { prop: "C16", kind: "deserialize-differs".into(), case: case.clone(), detail: format!("{name} gives {:?}, from_str {:?}", observe(q), observe(p)) }),
                    _ => {},
                }
            }
        },
        _ => {},
    }
    match out {
        Outcome::Panic(_) => false,
        Outcome::Err(_, text) => {
            match &de {
                Ok(p) => acc.violate(Violation { prop: "C16", kind: "deserialize-accepts".into(), case: case.clone(), detail: format!("from_str refuses with {:?} but deserialising the JSON string gives {:?}", text, observe(p)) }),
                Err(e) => {
                    // the property demands refusal, not a particular message: diagnostic only
                    if !e.to_string().starts_with(text.as_str()) {
                        acc.count("serde_error_text_differs_from_parse_error_text");
                    }
                },
            }
            if de2.is_ok() || de3.is_ok() {
                acc.violate(Violation { prop: "C16", kind: "deserialize-accepts".into(), case, detail: "from_str refuses but another deserializer accepts".into() });
            }
            false
        },
        Outcome::Ok(p) => {
            for (name, ok, val) in [("serde_json::from_str", de.is_ok(), de.ok()), ("value::StringDeserializer", de2.is_ok(), de2.ok()), ("serde_json::from_value", de3.is_ok(), de3.ok())] {
                match val {
                    None => acc.violate(Violation { prop: "C16", kind: "deserialize-refuses".into(), case: case.clone(), detail: format!("from_str accepts but {name} refuses") }),
                    Some(q) => {
                        if &q != p {
                            acc.violate(Violation { prop: "C16", kind: "deserialize-differs".into(), case: case.clone(), detail: format!("{name} gives {:?}, from_str {:?}", observe(&q), observe(p)) });
                        }
                    },
                }
                let _ = ok;
            }
            // serialisation: exactly the canonical string as one string value
            acc.calls += 3;
            let text = p.to_string();
            match serde_json::to_value(p) {
                Ok(serde_json::Value::String(v)) if v == text => {},
                other => acc.violate(Violation { prop: "C16", kind: "serialize-differs".into(), case: case.clone(), detail: format!("serialises as {:?}, canonical string is {:?}", other, text) }),
            }
            match serde_json::to_string(p) {
                Ok(j) if j == serde_json::to_string(&text).unwrap() => {
                    // JSON round trip is the identity
                    match serde_json::from_str::<GenericPurl<T>>(&j) {
                        Ok(q) if &q == p && q.to_string() == text => {},
                        other => acc.violate(Violation { prop: "C16", kind: "json-roundtrip".into(), case: case.clone(), detail: format!("JSON {j} reads back as {:?}", other.map(|q| observe(&q)).map_err(|e| e.to_string())) }),
                    }
                },
                other => acc.violate(Violation { prop: "C16", kind: "serialize-differs".into(), case: case.clone(), detail: format!("to_string gives {:?}", other.map_err(|e| e.to_string())) }),
            }
            // values that are not strings are refused: byte strings, numbers, booleans, unit, sequences
            {
                use serde::de::value::{BoolDeserializer, BorrowedBytesDeserializer, BytesDeserializer, Error as VErr, SeqDeserializer, U64Deserializer, UnitDeserializer};
                acc.calls += 6;
                let mut accepted: Vec<&str> = Vec::new();
                if GenericPurl::<T>::deserialize(BytesDeserializer::<VErr>::new(text.as_bytes())).is_ok() {
                    accepted.push("bytes");
                }
                if GenericPurl::<T>::deserialize(BorrowedBytesDeserializer::<VErr>::new(text.as_bytes())).is_ok() {
                    accepted.push("borrowed bytes");
                }
                if GenericPurl::<T>::deserialize(U64Deserializer::<VErr>::new(7)).is_ok() {
                    accepted.push("u64");
                }
                if GenericPurl::<T>::deserialize(BoolDeserializer::<VErr>::new(true)).is_ok() {
                    accepted.push("bool");
                }
                if GenericPurl::<T>::deserialize(UnitDeserializer::<VErr>::new()).is_ok() {
                    accepted.push("unit");
                }
                if GenericPurl::<T>::deserialize(SeqDeserializer::<_, VErr>::new(vec![text.clone()].into_iter())).is_ok() {
                    accepted.push("sequence of one string");
                }
                if GenericPurl::<T>::deserialize(SeqDeserializer::<_, VErr>::new(text.bytes())).is_ok() {
                    accepted.push("sequence of the text's bytes");
                }
                if GenericPurl::<T>::deserialize(SeqDeserializer::<_, VErr>::new(text.chars())).is_ok() {
                    accepted.push("sequence of the text's characters");
                }
                if GenericPurl::<T>::deserialize(serde::de::value::CharDeserializer::<VErr>::new('p')).is_ok() {
                    accepted.push("char");
                }
                if !accepted.is_empty() {
                    acc.violate(Violation { prop: "C16", kind: "non-string-accepted".into(), case: case.clone(), detail: format!("a value that is not a string ({}) carrying the text {:?} deserialises to a PURL", accepted.join(", "), text) });
                }
            }
            for v in [serde_json::json!(text.bytes().collect::<Vec<u8>>()), serde_json::json!(text.chars().map(|c| c.to_string()).collect::<Vec<String>>()), serde_json::json!({text.clone(): null}), serde_json::json!(null), serde_json::json!(true), serde_json::json!(0), serde_json::json!(1.5), serde_json::json!([text.clone()]), serde_json::json!({"purl": text.clone()}), serde_json::json!([[text.clone()]]), serde_json::json!({"a": {"b": text.clone()}})] {
                acc.calls += 1;
                if let Ok(q) = serde_json::from_value::<GenericPurl<T>>(v.clone()) {
                    acc.violate(Violation { prop: "C16", kind: "non-string-accepted".into(), case: case.clone(), detail: format!("JSON value {v} deserialises to {:?}", observe(&q)) });
                }
            }
            true
        },
    }
}

/// M08 — typed vs type-agnostic differential and the name rules (C08).
#[cfg(feature = "typed")]
pub fn m08(s: &str, g: &Outcome<String>, t: &Outcome<purl::PackageType>, acc: &mut Acc) -> bool {
    let case = case_string("String|PackageType", s);
    match (g, t) {
        (Outcome::Ok(gp), Outcome::Ok(tp)) => {
            let (go, to) = (observe(gp), observe(tp));
            if go.ty != to.ty || go.ns != to.ns || go.version != to.version || go.quals != to.quals || go.subpath != to.subpath {
                acc.violate(Violation { prop: "C08", kind: "typed-differs".into(), case: case.clone(), detail: format!("typed {:?} vs type-agnostic {:?}", to, go) });
            }
            if to.ty == "maven" && to.ns.is_none() {
                acc.violate(Violation { prop: "C08", kind: "maven-accepted".into(), case: case.clone(), detail: "maven accepted without a namespace".into() });
            }
            let want = R::name_rule(&go.ty, &go.name);
            if to.name != want {
                let note = if has_titlecase(&go.name) { " [titlecase]" } else { "" };
                acc.violate(Violation { prop: "C08", kind: "name-rule".into(), case, detail: format!("{} name {:?} came out as {:?}, rule gives {:?}{}", go.ty, go.name, to.name, want, note) });
            }
            true
        },
        (Outcome::Ok(gp), Outcome::Err(c, txt)) => {
            let go = observe(gp);
            let known = R::KNOWN_TYPES.contains(&go.ty.as_str());
            if !known {
                // refused, as C08 demands; which error is C05's business
                if *c != ErrClass::Unsupported {
                    acc.count("unknown_type_refused_with_another_error");
                }
            } else if go.ty == "maven" && go.ns.is_none() {
                if *c != ErrClass::NoNamespace {
                    acc.count("maven_without_namespace_refused_with_another_error");
                }
            } else {
                acc.violate(Violation { prop: "C08", kind: "typed-refuses".into(), case, detail: format!("type-agnostic accepts {:?}, typed refuses with {:?}", go, txt) });
            }
            true
        },
        (Outcome::Err(_, gt), Outcome::Ok(tp)) => {
            acc.violate(Violation { prop: "C08", kind: "typed-accepts".into(), case, detail: format!("type-agnostic refuses with {:?}, typed accepts {:?}", gt, observe(tp)) });
            true
        },
        _ => false,
    }
}
