//! Engine B — deviation-bounded spelling and fault explorer. `spell` writes a PURL for a known
//! component tuple and asks a `Chooser` at every spelling site; alternative 0 is the canonical
//! spelling. The explorer enumerates all executions with at most d non-zero choices. In fault mode
//! exactly one fault of the C05 menu is injected in addition.

use std::collections::BTreeMap;

use crate::common::*;
use crate::refmodel::{self as R, Comp};

pub struct Chooser<'a> {
    prefix: &'a [u16],
    pub taken: Vec<(u16, u16)>,
}

impl<'a> Chooser<'a> {
    pub fn new(prefix: &'a [u16]) -> Self {
        Chooser { prefix, taken: Vec::with_capacity(64) }
    }
    /// pick one of n alternatives (0 = canonical)
    pub fn choose(&mut self, n: usize) -> usize {
        debug_assert!(n >= 1);
        let i = self.taken.len();
        let c = if i < self.prefix.len() {
            let c = self.prefix[i] as usize;
            assert!(c < n, "MACHINERY: replayed choice {c} out of range {n} at site {i} (divergence while replaying a prefix)");
            c
        } else {
            0
        };
        self.taken.push((c as u16, n as u16));
        c
    }
}

#[derive(Clone, Debug, PartialEq, Eq, Hash)]
pub struct SpecTuple {
    pub ty: String,
    pub typed: bool,
    pub ns: Vec<String>,
    pub name: String,
    pub version: Option<String>,
    /// lower-case keys, sorted; a checksum value is in canonical form
    pub quals: Vec<(String, String)>,
    pub subpath: Vec<String>,
}

impl SpecTuple {
    pub fn expected(&self, typed_flavor: bool) -> Tuple {
        let mut quals = BTreeMap::new();
        for (k, v) in &self.quals {
            quals.insert(k.clone(), v.clone());
        }
        Tuple {
            ty: self.ty.clone(),
            ns: self.ns.clone(),
            name: if typed_flavor { R::name_rule(&self.ty, &self.name) } else { self.name.clone() },
            version: self.version.clone(),
            quals,
            subpath: self.subpath.clone(),
        }
    }
    pub fn to_json(&self) -> serde_json::Value {
        serde_json::json!({"ty": self.ty, "typed": self.typed, "ns": self.ns, "name": self.name, "version": self.version, "quals": self.quals, "subpath": self.subpath})
    }
    pub fn from_json(v: &serde_json::Value) -> Option<SpecTuple> {
        let strs = |x: &serde_json::Value| -> Option<Vec<String>> { x.as_array()?.iter().map(|s| s.as_str().map(str::to_owned)).collect() };
        Some(SpecTuple {
            ty: v["ty"].as_str()?.to_owned(),
            typed: v["typed"].as_bool()?,
            ns: strs(&v["ns"])?,
            name: v["name"].as_str()?.to_owned(),
            version: v["version"].as_str().map(str::to_owned),
            quals: v["quals"].as_array()?.iter().map(|p| Some((p[0].as_str()?.to_owned(), p[1].as_str()?.to_owned()))).collect::<Option<Vec<_>>>()?,
            subpath: strs(&v["subpath"])?,
        })
    }
}

/// Which fault to inject: the `site`-th fault site visited, alternative `alt` (1-based among the
/// site's alternatives). `count_only` runs record the menu.
#[derive(Clone, Copy, Debug, PartialEq, Eq)]
pub struct FaultSel {
    pub site: usize,
    pub alt: usize,
}

#[derive(Clone, Debug, PartialEq, Eq)]
pub struct FaultInfo {
    pub kind: &'static str,
    pub class: ErrClass,
    /// whether the typed parser is expected to report the same class (wrapped)
    pub typed_class: ErrClass,
}

pub struct Speller<'a, 'b> {
    pub ch: &'a mut Chooser<'b>,
    pub fault: Option<FaultSel>,
    pub site_counter: usize,
    /// menu recorded while spelling: alternatives per fault site
    pub menu: Vec<usize>,
    pub injected: Option<FaultInfo>,
}

#[derive(Clone, Copy)]
struct Ctx {
    has_version: bool,
    has_quals: bool,
    has_subpath: bool,
}

const UTF8_FAULTS: [&str; 9] = ["%80", "%C3a", "%C3", "%E2%82", "%C0%AF", "%E0%80%AF", "%ED%A0%80", "%F4%90%80%80", "%FF"];

impl<'a, 'b> Speller<'a, 'b> {
    pub fn new(ch: &'a mut Chooser<'b>, fault: Option<FaultSel>) -> Self {
        Speller { ch, fault, site_counter: 0, menu: Vec::new(), injected: None }
    }

    /// A fault site with n alternatives; returns Some(alt in 1..=n) when this is the selected one.
    fn fault_site(&mut self, n: usize) -> Option<usize> {
        let idx = self.site_counter;
        self.site_counter += 1;
        self.menu.push(n);
        match self.fault {
            Some(f) if f.site == idx => {
                assert!(f.alt >= 1 && f.alt <= n, "MACHINERY: fault alternative out of range");
                Some(f.alt)
            },
            _ => None,
        }
    }

    fn inject(&mut self, kind: &'static str, class: ErrClass) {
        self.injected = Some(FaultInfo { kind, class, typed_class: class });
    }

    fn raw_legal(c: char, comp: Comp, ctx: Ctx) -> bool {
        match c {
            '%' => false,
            '/' => !matches!(comp, Comp::Name | Comp::Namespace | Comp::Subpath),
            '@' => match comp {
                Comp::Namespace | Comp::Name => ctx.has_version,
                Comp::Version => false,
                _ => true,
            },
            '?' => match comp {
                Comp::Namespace | Comp::Name | Comp::Version => ctx.has_quals,
                Comp::QualValue | Comp::QualKey => false,
                Comp::Subpath => true,
            },
            '#' => match comp {
                Comp::Subpath => false,
                _ => ctx.has_subpath,
            },
            '&' => !matches!(comp, Comp::QualValue | Comp::QualKey),
            _ => true,
        }
    }

    /// Spell one character of a component: alternative 0 canonical, then raw / %XX / %xx where they
    /// differ and are legal.
    fn spell_char(&mut self, out: &mut String, c: char, comp: Comp, ctx: Ctx) {
        let mut buf = [0u8; 4];
        let bytes = c.encode_utf8(&mut buf).as_bytes().to_vec();
        let canon_escaped = bytes.iter().any(|b| R::must_escape(*b, comp));
        let upper: String = bytes.iter().map(|b| format!("%{:02X}", b)).collect();
        let lower: String = bytes.iter().map(|b| format!("%{:02x}", b)).collect();
        let raw: String = c.to_string();
        let mut alts: Vec<&str> = Vec::with_capacity(3);
        if canon_escaped {
            alts.push(&upper);
            if Self::raw_legal(c, comp, ctx) {
                alts.push(&raw);
            }
        } else {
            alts.push(&raw);
            alts.push(&upper);
        }
        if lower != upper {
            alts.push(&lower);
        }
        let k = self.ch.choose(alts.len());
        out.push_str(alts[k]);
    }

    /// UTF-8 / hidden-slash fault sites at one character boundary
    fn boundary_faults(&mut self, out: &mut String, comp: Comp, at_end: bool) {
        // UTF-8 faults: 9 patterns x 2 hex cases (the truncated "%C3" only makes a distinct case at the end,
        // but it is invalid at every boundary, so it is injected everywhere)
        let _ = at_end;
        if let Some(a) = self.fault_site(UTF8_FAULTS.len() * 2) {
            let pat = UTF8_FAULTS[(a - 1) / 2];
            let text = if (a - 1) % 2 == 0 { pat.to_owned() } else { pat.to_ascii_lowercase() };
            out.push_str(&text);
            self.inject("invalid-utf8-escape", ErrClass::Escape);
        }
        if matches!(comp, Comp::Namespace | Comp::Subpath) {
            if let Some(a) = self.fault_site(2) {
                out.push_str(if a == 1 { "%2F" } else { "%2f" });
                self.inject("hidden-slash", ErrClass::Escape);
            }
        }
    }

    fn spell_component(&mut self, out: &mut String, text: &str, comp: Comp, ctx: Ctx) {
        let n = text.chars().count();
        for (i, c) in text.chars().enumerate() {
            self.boundary_faults(out, comp, false);
            self.spell_char(out, c, comp, ctx);
            let _ = i;
        }
        let _ = n;
        self.boundary_faults(out, comp, true);
    }

    fn spell_key(&mut self, out: &mut String, key: &str) {
        for c in key.chars() {
            // invalid character inserted before this position
            if let Some(a) = self.fault_site(5) {
                out.push_str(["!", " ", "é", "+", "~"][a - 1]);
                self.inject("invalid-key-character", ErrClass::Qualifier);
            }
            // this character percent-encoded
            let enc = self.fault_site(2);
            let up = if c.is_ascii_alphabetic() { self.ch.choose(2) == 1 } else { false };
            match enc {
                Some(a) => {
                    let b = c as u8;
                    out.push_str(&if a == 1 { format!("%{:02X}", b) } else { format!("%{:02x}", b) });
                    self.inject("percent-encoded-key", ErrClass::Qualifier);
                },
                None => out.push(if up { c.to_ascii_uppercase() } else { c }),
            }
        }
    }

    /// a checksum value in some equivalent spelling (entry order, algorithm case, hex case), before
    /// the character-level spelling of the qualifier value. Returns the well-formed text and, when
    /// a checksum fault is selected, the faulted text (the sequence of `choose` calls is the same).
    fn checksum_text(&mut self, canonical: &str) -> (String, Option<String>) {
        let entries: Vec<(&str, &str)> = canonical.split(',').filter_map(|e| e.rfind(':').map(|i| (&e[..i], &e[i + 1..]))).collect();
        let mut order: Vec<usize> = (0..entries.len()).collect();
        let mut perm = Vec::new();
        while !order.is_empty() {
            let k = self.ch.choose(order.len());
            perm.push(order.remove(k));
        }
        let mut out = String::new();
        let mut bad = String::new();
        let mut faulted = false;
        for (j, idx) in perm.iter().enumerate() {
            let (alg, hex) = entries[*idx];
            if j > 0 {
                out.push(',');
                bad.push(',');
            }
            // fault: algorithm repeated in identical / other case
            if let Some(a) = self.fault_site(2) {
                let rep = if a == 1 { alg.to_owned() } else { alg.chars().flat_map(|c| c.to_uppercase()).collect::<String>() };
                bad.push_str(&rep);
                bad.push_str(":00,");
                faulted = true;
                self.inject("checksum-algorithm-repeated", ErrClass::Qualifier);
            }
            for c in alg.chars() {
                let up: String = c.to_uppercase().collect();
                // only offer the upper-case form when it lower-cases back to the same character
                let ok = up != c.to_string() && up.chars().flat_map(|u| u.to_lowercase()).collect::<String>() == c.to_string();
                let piece = if ok && self.ch.choose(2) == 1 { up } else { c.to_string() };
                out.push_str(&piece);
                bad.push_str(&piece);
            }
            // fault: entry without ':' (only a fault when the algorithm itself has no ':')
            out.push(':');
            if !alg.contains(':') && self.fault_site(1).is_some() {
                faulted = true;
                self.inject("checksum-entry-without-colon", ErrClass::Qualifier);
            } else {
                bad.push(':');
            }
            for (hi, c) in hex.chars().enumerate() {
                // fault: one hex digit removed (the first)
                let removed = hi == 0 && self.fault_site(1).is_some();
                let replaced = self.fault_site(3);
                let up = c.is_ascii_alphabetic() && self.ch.choose(2) == 1;
                let piece = if up { c.to_ascii_uppercase() } else { c };
                out.push(piece);
                if removed {
                    faulted = true;
                    self.inject("checksum-odd-hex", ErrClass::Qualifier);
                } else if let Some(a) = replaced {
                    bad.push_str(["g", "G", "é"][a - 1]);
                    faulted = true;
                    self.inject("checksum-non-hex", ErrClass::Qualifier);
                } else {
                    bad.push(piece);
                }
            }
        }
        (out, if faulted { Some(bad) } else { None })
    }

    /// Spell the tuple. Every component is always spelled (so that the sequence of `choose` calls
    /// does not depend on the fault selected); whole-PURL faults are applied when assembling.
    pub fn spell(&mut self, t: &SpecTuple) -> String {
        let ctx = Ctx { has_version: t.version.is_some(), has_quals: !t.quals.is_empty(), has_subpath: !t.subpath.is_empty() };
        // --- scheme
        let mut scheme = String::new();
        match self.fault_site(7) {
            Some(1) => self.inject("scheme-removed", ErrClass::Scheme),
            Some(2) => {
                scheme.push_str("http:");
                self.inject("other-scheme", ErrClass::Scheme);
            },
            Some(3) => {
                scheme.push_str("pkg");
                self.inject("colon-missing", ErrClass::Scheme);
            },
            Some(a) => {
                scheme.push_str([" ", "x", "/", ":"][a - 4]);
                scheme.push_str("pkg:");
                self.inject("character-before-scheme", ErrClass::Scheme);
            },
            None => scheme.push_str("pkg:"),
        }
        let k = self.ch.choose(3);
        for _ in 0..k {
            scheme.push('/');
        }
        // --- whole-PURL fault selectors
        let no_type = self.fault_site(1).is_some();
        let no_name = if t.ns.is_empty() && !(t.typed && t.ty == "maven") { self.fault_site(3) } else { None };
        let unknown_type = if t.typed { self.fault_site(OTHER_TYPES.len()) } else { None };
        let drop_maven_ns = if t.typed && t.ty == "maven" { self.fault_site(1).is_some() } else { false };
        // --- type
        let mut ty = String::new();
        for c in t.ty.chars() {
            if let Some(a) = self.fault_site(6) {
                ty.push_str(["!", "_", " ", "é", "~", "*"][a - 1]);
                self.inject("invalid-type-character", ErrClass::BadType);
            }
            let enc = if c.is_ascii_alphabetic() { self.fault_site(2) } else { None };
            let up = if c.is_ascii_alphabetic() { self.ch.choose(2) == 1 } else { false };
            match enc {
                Some(a) => {
                    let b = c as u8;
                    ty.push_str(&if a == 1 { format!("%{:02X}", b) } else { format!("%{:02x}", b) });
                    self.inject("percent-encoded-type", ErrClass::BadType);
                },
                None => ty.push(if up { c.to_ascii_uppercase() } else { c }),
            }
        }
        if let Some(a) = self.fault_site(6) {
            ty.push_str(["!", "_", " ", "é", "~", "*"][a - 1]);
            self.inject("invalid-type-character", ErrClass::BadType);
        }
        // --- path: '/' [extra '/'] namespace segments, name
        let mut lead = String::from("/");
        if self.ch.choose(2) == 1 {
            lead.push('/');
        }
        let mut ns = String::new();
        for seg in &t.ns {
            self.spell_component(&mut ns, seg, Comp::Namespace, ctx);
            ns.push('/');
            if self.ch.choose(2) == 1 {
                ns.push('/');
            }
        }
        let mut name = String::new();
        self.spell_component(&mut name, &t.name, Comp::Name, ctx);
        let mut version = String::new();
        if let Some(v) = &t.version {
            version.push('@');
            self.spell_component(&mut version, v, Comp::Version, ctx);
        }
        // --- qualifiers
        let nq = t.quals.len();
        let mut items: Vec<String> = Vec::new();
        let mut order: Vec<usize> = (0..nq).collect();
        let mut perm = Vec::new();
        while !order.is_empty() {
            let k = self.ch.choose(order.len());
            perm.push(order.remove(k));
        }
        let mut fresh = 0;
        for slot in 0..=nq {
            // an empty-valued qualifier with a fresh key at each gap
            if self.ch.choose(2) == 1 {
                items.push(format!("zz{fresh}="));
                fresh += 1;
            }
            // fault: an item without '=' / with an empty key at this gap
            if let Some(a) = self.fault_site(2) {
                items.push(if a == 1 { "novalue".to_owned() } else { "=v".to_owned() });
                self.inject(if a == 1 { "qualifier-without-equals" } else { "empty-qualifier-key" }, ErrClass::Qualifier);
            }
            if slot == nq {
                break;
            }
            let (k, v) = &t.quals[perm[slot]];
            let mut item = String::new();
            self.spell_key(&mut item, k);
            let lose_eq = self.fault_site(1).is_some();
            let mut val = String::new();
            let (text, faulted) = if k == "checksum" { self.checksum_text(v) } else { (v.clone(), None) };
            self.spell_component(&mut val, &text, Comp::QualValue, ctx);
            if let Some(ft) = faulted {
                // the faulted checksum text is written with canonical escaping (no further choices)
                val.clear();
                R::escape_into(&mut val, &ft, Comp::QualValue);
            }
            if lose_eq {
                self.inject("qualifier-without-equals", ErrClass::Qualifier);
            } else {
                item.push('=');
                item.push_str(&val);
            }
            items.push(item);
            // fault: the key repeated with a second non-empty value, identical / other case
            if let Some(a) = self.fault_site(2) {
                let rk = if a == 1 { k.clone() } else { k.to_ascii_uppercase() };
                items.push(format!("{rk}=other"));
                self.inject("qualifier-key-repeated", ErrClass::Qualifier);
            }
        }
        let mut quals = String::new();
        if !items.is_empty() {
            quals.push('?');
            quals.push_str(&items.join("&"));
        }
        // --- subpath
        let mut subpath = String::new();
        if !t.subpath.is_empty() {
            subpath.push('#');
            let ns_ = t.subpath.len();
            for i in 0..=ns_ {
                // gap spelling: canonical, extra '/', './', '../'
                let k = self.ch.choose(4);
                let sep_needed = i > 0 && i < ns_;
                match k {
                    0 => {
                        if sep_needed {
                            subpath.push('/');
                        }
                    },
                    1 => subpath.push_str(if sep_needed { "//" } else { "/" }),
                    2 => subpath.push_str(if i == 0 { "./" } else if i == ns_ { "/." } else { "/./" }),
                    _ => subpath.push_str(if i == 0 { "../" } else if i == ns_ { "/.." } else { "/../" }),
                }
                if i < ns_ {
                    self.spell_component(&mut subpath, &t.subpath[i], Comp::Subpath, ctx);
                }
            }
        }
        // --- assemble
        let mut out = scheme;
        if no_type {
            self.inject("type-missing", ErrClass::NoType);
            out.push_str(&quals);
            out.push_str(&subpath);
            return out;
        }
        match unknown_type {
            Some(a) => {
                self.inject("unknown-type", ErrClass::Unsupported);
                out.push_str(OTHER_TYPES[a - 1]);
            },
            None => out.push_str(&ty),
        }
        match no_name {
            Some(1) => {
                // no '/' at all after the type
                self.inject("name-missing", ErrClass::NoName);
            },
            Some(a) => {
                self.inject("name-missing", ErrClass::NoName);
                out.push('/');
                if a == 3 {
                    out.push('/');
                }
                out.push_str(&version);
            },
            None => {
                out.push_str(&lead);
                if drop_maven_ns {
                    self.inject("maven-namespace-removed", ErrClass::NoNamespace);
                } else {
                    out.push_str(&ns);
                }
                out.push_str(&name);
                out.push_str(&version);
            },
        }
        out.push_str(&quals);
        out.push_str(&subpath);
        out
    }
}

pub const OTHER_TYPES: [&str; 34] = [
    "alpm", "apk", "bitbucket", "bitnami", "cocoapods", "composer", "conan", "conda", "cpan", "cran", "deb", "docker", "generic", "github", "hackage", "hex", "huggingface", "luarocks", "mlflow", "oci", "pub", "qpkg", "rpm", "swid", "swift",
    "carg", "cargoo", "ge", "golan", "mavenn", "np", "nugget", "pypy", "pip",
];

/// Enumerate every spelling with at most `d` deviations (non-zero choices) — the iterative
/// context-bounding scheme with "deviation from the canonical spelling" in the role of a
/// preemption. `f(text, choices, injected_fault)`.
pub fn explore_spellings(t: &SpecTuple, d: usize, fault: Option<FaultSel>, f: &mut dyn FnMut(&str, &[(u16, u16)], Option<&FaultInfo>)) -> u64 {
    fn rec(t: &SpecTuple, prefix: &mut Vec<u16>, used: usize, d: usize, fault: Option<FaultSel>, f: &mut dyn FnMut(&str, &[(u16, u16)], Option<&FaultInfo>), count: &mut u64) {
        let mut ch = Chooser::new(prefix);
        let (text, injected) = {
            let mut sp = Speller::new(&mut ch, fault);
            let text = sp.spell(t);
            (text, sp.injected.clone())
        };
        *count += 1;
        let taken = ch.taken.clone();
        f(&text, &taken, injected.as_ref());
        if used >= d {
            return;
        }
        let start = prefix.len();
        for i in start..taken.len() {
            let n = taken[i].1;
            if n <= 1 {
                continue;
            }
            // prefix = choices up to i (all zero beyond the old prefix), then alt at i
            let mut np: Vec<u16> = taken[..i].iter().map(|x| x.0).collect();
            for alt in 1..n {
                np.push(alt);
                rec(t, &mut np, used + 1, d, fault, f, count);
                np.pop();
            }
        }
    }
    let mut count = 0u64;
    let mut prefix: Vec<u16> = Vec::new();
    rec(t, &mut prefix, 0, d, fault, f, &mut count);
    count
}

/// The fault menu of a tuple: number of alternatives at every fault site (canonical spelling).
pub fn fault_menu(t: &SpecTuple) -> Vec<usize> {
    let prefix: [u16; 0] = [];
    let mut ch = Chooser::new(&prefix);
    let mut sp = Speller::new(&mut ch, None);
    let _ = sp.spell(t);
    sp.menu.clone()
}

/// Re-spell from a recorded choice vector (replay).
pub fn respell(t: &SpecTuple, choices: &[u16], fault: Option<FaultSel>) -> (String, Option<FaultInfo>) {
    let mut ch = Chooser::new(choices);
    let mut sp = Speller::new(&mut ch, fault);
    let text = sp.spell(t);
    (text, sp.injected.clone())
}

// ------------------------------------------------------------------------------------------------
// tuple universe

fn sv(v: &[&str]) -> Vec<String> {
    v.iter().map(|s| s.to_string()).collect()
}

pub fn tuple_universe(full: bool) -> Vec<SpecTuple> {
    let nss: Vec<Vec<String>> = vec![sv(&[]), sv(&["a"]), sv(&["A b", "é"]), sv(&["@s", ".."]), sv(&["x?y#z"])];
    let names: Vec<&str> = vec!["n", "a/b", "%", "N-_.m", "ǅ", "a@b?c#d"];
    let versions: Vec<Option<&str>> = vec![None, Some("1.0+b@2"), Some("v/1"), Some("é%")];
    let qualss: Vec<Vec<(&str, &str)>> = vec![
        vec![],
        vec![("k", "v")],
        vec![("a", "a&b=c"), ("b", "+ ")],
        vec![("checksum", "a:00,b:ff0a"), ("k", "x?y")],
        vec![("checksum", "aé:,sha1:ab")],
        vec![("checksum", "md:00,md5:11"), ("k_", "v"), ("kz", "w")],
        vec![("checksum", "a&b#c:00,x%41:ff")],
    ];
    let subpaths: Vec<Vec<String>> = vec![sv(&[]), sv(&["s"]), sv(&["a b", "é#"]), sv(&[".x", "@"])];
    let types: Vec<(&str, bool)> = vec![("t", false), ("x.y+z-1", false), ("cargo", true), ("gem", true), ("golang", true), ("maven", true), ("npm", true), ("nuget", true), ("pypi", true)];
    let mut out = Vec::new();
    for (ty, typed) in &types {
        for (a, ns) in nss.iter().enumerate() {
            for (b, name) in names.iter().enumerate() {
                for (c, ver) in versions.iter().enumerate() {
                    for (d, q) in qualss.iter().enumerate() {
                        for (e, sp) in subpaths.iter().enumerate() {
                            let nondefault = [a, b, c, d, e].iter().filter(|x| **x != 0).count();
                            if !full && nondefault > 2 {
                                continue;
                            }
                            if *typed && *ty == "maven" && ns.is_empty() {
                                continue;
                            }
                            out.push(SpecTuple {
                                ty: ty.to_string(),
                                typed: *typed,
                                ns: ns.clone(),
                                name: name.to_string(),
                                version: ver.map(str::to_owned),
                                quals: q.iter().map(|(k, v)| (k.to_string(), v.to_string())).collect(),
                                subpath: sp.clone(),
                            });
                        }
                    }
                }
            }
        }
    }
    out
}
