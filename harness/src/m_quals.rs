//! C11 — the qualifier collection against a `BTreeMap` keyed by the ASCII-lower-cased key.

use std::collections::hash_map::DefaultHasher;
use std::collections::BTreeMap;
use std::hash::{Hash, Hasher};

use purl::qualifiers::well_known::{Checksum, RepositoryUrl};
use purl::qualifiers::Entry;
use purl::Qualifiers;
use serde_json::{json, Value};

use crate::common::*;
use crate::refmodel as R;
use crate::xstate::Model;

#[derive(Clone)]
pub struct QState {
    pub real: Qualifiers,
    pub refm: BTreeMap<String, String>,
}

pub fn content(q: &Qualifiers) -> Vec<(String, String)> {
    q.iter().map(|(k, v)| (k.as_str().to_owned(), v.to_owned())).collect()
}

fn hash_of<T: Hash>(t: &T) -> u64 {
    let mut h = DefaultHasher::new();
    t.hash(&mut h);
    h.finish()
}

#[derive(Clone, Debug, PartialEq)]
pub enum QAct {
    Insert(String, String),
    Remove(String),
    GetMutWrite(String, String),
    IndexMutWrite(String, String),
    EntryOrInsert(String, String),
    EntryOrInsertWith(String, String),
    EntryAndModifyOrInsert(String, String, String),
    /// entry, then by classification: occupied sub-operation `op` / vacant insert
    EntryOccupied(String, u8, String),
    EntryVacantInsert(String, String),
    Retain(u8),
    RetainMut(u8, String),
    Clear,
    IterMutWrite(u8, String),
    Reserve(u8),
    // typed accessors
    InsertTypedRepo(String),
    TryInsertTypedChecksum(String),
    RemoveTypedRepo,
    RemoveTypedChecksum,
    /// the other well-known string qualifiers: insert_typed / remove_typed by kind
    InsertTypedOther(u8, String),
    RemoveTypedOther(u8),
    /// insert_typed / try_insert_typed (by flag) / remove_typed / get_typed with a declared KEY that is invalid
    TypedInvalidKey(u8),
}

/// the well-known string qualifiers and the keys the PURL specification gives them
pub const OTHER_TYPED: [&str; 7] = ["download_url", "vcs_url", "file_name", "classifier", "type", "platform", "build_tag"];

fn insert_other(q: &mut Qualifiers, kind: u8, v: &'static str) {
    use purl::qualifiers::well_known::{gem, maven, DownloadUrl, FileName, VcsUrl};
    match kind {
        0 => q.insert_typed(DownloadUrl::from(v)),
        1 => q.insert_typed(VcsUrl::from(v)),
        2 => q.insert_typed(FileName::from(v)),
        3 => q.insert_typed(maven::Classifier::from(v)),
        4 => q.insert_typed(maven::Type::from(v)),
        5 => q.insert_typed(gem::Platform::from(v)),
        _ => q.insert_typed(BuildTag(v)),
    }
}
fn remove_other(q: &mut Qualifiers, kind: u8) {
    use purl::qualifiers::well_known::{gem, maven, DownloadUrl, FileName, VcsUrl};
    match kind {
        0 => q.remove_typed::<DownloadUrl>(),
        1 => q.remove_typed::<VcsUrl>(),
        2 => q.remove_typed::<FileName>(),
        3 => q.remove_typed::<maven::Classifier>(),
        4 => q.remove_typed::<maven::Type>(),
        5 => q.remove_typed::<gem::Platform>(),
        _ => q.remove_typed::<BuildTag>(),
    }
}
fn get_other(q: &Qualifiers, kind: u8) -> (Option<String>, bool) {
    use purl::qualifiers::well_known::{gem, maven, DownloadUrl, FileName, VcsUrl};
    match kind {
        0 => (q.get_typed::<DownloadUrl>().map(|x| x.to_string()), q.contains_typed::<DownloadUrl>()),
        1 => (q.get_typed::<VcsUrl>().map(|x| x.to_string()), q.contains_typed::<VcsUrl>()),
        2 => (q.get_typed::<FileName>().map(|x| x.to_string()), q.contains_typed::<FileName>()),
        3 => (q.get_typed::<maven::Classifier>().map(|x| x.to_string()), q.contains_typed::<maven::Classifier>()),
        4 => (q.get_typed::<maven::Type>().map(|x| x.to_string()), q.contains_typed::<maven::Type>()),
        5 => (q.get_typed::<gem::Platform>().map(|x| x.to_string()), q.contains_typed::<gem::Platform>()),
        _ => (q.get_typed::<BuildTag>().map(|x| x.0.to_owned()), q.contains_typed::<BuildTag>()),
    }
}

/// An iterator adapter that reports a chosen (legitimate) size hint: the lower bound never exceeds and
/// the upper bound never falls below what it really yields.
pub struct Hinted<I> {
    pub inner: I,
    pub hint: (usize, Option<usize>),
}
impl<I: Iterator> Iterator for Hinted<I> {
    type Item = I::Item;
    fn next(&mut self) -> Option<I::Item> {
        self.inner.next()
    }
    fn size_hint(&self) -> (usize, Option<usize>) {
        self.hint
    }
}

pub struct QModel {
    pub name: &'static str,
    pub keys: Vec<String>,
    pub invalid: Vec<String>,
    pub values: Vec<String>,
    pub acts: Vec<QAct>,
    pub typed: bool,
    pub init_from_pairs: usize,
}

fn lower(k: &str) -> String {
    k.to_ascii_lowercase()
}

/// the eight retain predicates, expressed on (lower-case key, value); the real side evaluates the
/// same predicate through QualifierKey's own comparisons
fn pred_ref(p: u8, k: &str, v: &str) -> bool {
    match p {
        0 => true,
        1 => false,
        2 => k == "a",
        3 => k < "b",
        4 => !v.is_empty(),
        5 => v == "x",
        6 => k.starts_with('z'),
        7 => k.len() > 1,
        // positional predicates for the size ladder: parity of the last digit of the key
        8 => k.bytes().filter(u8::is_ascii_digit).last().map(|d| d % 2 == 0).unwrap_or(true),
        _ => k.bytes().filter(u8::is_ascii_digit).last().map(|d| d % 2 == 1).unwrap_or(false),
    }
}
fn pred_real(p: u8, k: &purl::qualifiers::QualifierKey, v: &str) -> bool {
    match p {
        0 => true,
        1 => false,
        2 => *k == *"A",                                                      // case-insensitive PartialEq<str>
        3 => k.partial_cmp("B") == Some(std::cmp::Ordering::Less),            // case-insensitive PartialOrd<str>
        4 => !v.is_empty(),
        5 => v == "x",
        6 => k.as_str().starts_with('z'),
        7 => k.len() > 1,
        8 => k.as_str().bytes().filter(u8::is_ascii_digit).last().map(|d| d % 2 == 0).unwrap_or(true),
        _ => k.as_str().bytes().filter(u8::is_ascii_digit).last().map(|d| d % 2 == 1).unwrap_or(false),
    }
}

impl QModel {
    /// A third, small model: only the well-known string qualifiers other than repository_url, driven
    /// through their typed accessors (plus plain removal by key in another letter case and clear).
    pub fn new_typed_others() -> QModel {
        let mut acts = Vec::new();
        for kind in 0..OTHER_TYPED.len() as u8 {
            acts.push(QAct::InsertTypedOther(kind, "x".to_owned()));
            if kind < 2 || kind == 6 {
                acts.push(QAct::InsertTypedOther(kind, "y/z?".to_owned()));
            }
            acts.push(QAct::RemoveTypedOther(kind));
            acts.push(QAct::Remove(OTHER_TYPED[kind as usize].to_ascii_uppercase()));
            acts.push(QAct::Insert(OTHER_TYPED[kind as usize].to_ascii_uppercase(), "k".to_owned()));
        }
        acts.push(QAct::InsertTypedOther(4, "".to_owned()));
        for which in 0..4u8 {
            acts.push(QAct::TypedInvalidKey(which));
        }
        acts.push(QAct::Clear);
        QModel { name: "quals-typed-others-bfs", keys: OTHER_TYPED.iter().map(|s| s.to_string()).collect(), invalid: vec![], values: vec!["x".into()], acts, typed: true, init_from_pairs: 0 }
    }

    pub fn new(tier: Tier, typed: bool) -> QModel {
        let s = |v: &[&str]| v.iter().map(|x| x.to_string()).collect::<Vec<String>>();
        let (keys, values, invalid);
        if typed {
            keys = s(&["checksum", "CheckSum", "repository_url", "Repository_URL", "a", "A"]);
            values = s(&["", "x", "a:00"]);
            invalid = s(&["", "!"]);
        } else {
            keys = match tier {
                Tier::Quick => s(&["a", "A", "ab", "Ab", "aB", "a_", "A_", "k", "K", "z-9", "Z-9"]),
                Tier::Thorough => s(&["a", "A", "ab", "Ab", "aB", "a_", "A_", "k", "K", "z-9", "Z-9", "b.", "B."]),
            };
            values = match tier {
                Tier::Quick => s(&["", "x", "Y"]),
                Tier::Thorough => s(&["", "x", "Y", "é&="]),
            };
            invalid = s(&["", "!", "a b", "é", "a=b", "\u{212A}", "\u{FF41}", "a%41", "a\u{212A}", "\u{212A}-1"]);
        }
        let mut acts = Vec::new();
        let all_keys: Vec<String> = keys.iter().chain(invalid.iter()).cloned().collect();
        for k in &all_keys {
            acts.push(QAct::Remove(k.clone()));
            for v in &values {
                acts.push(QAct::Insert(k.clone(), v.clone()));
                acts.push(QAct::GetMutWrite(k.clone(), v.clone()));
                acts.push(QAct::IndexMutWrite(k.clone(), v.clone()));
                acts.push(QAct::EntryOrInsert(k.clone(), v.clone()));
                acts.push(QAct::EntryOrInsertWith(k.clone(), v.clone()));
                acts.push(QAct::EntryVacantInsert(k.clone(), v.clone()));
                for op in 0..6u8 {
                    // only get_mut / into_mut / insert use the value; get / remove / remove_entry once
                    if matches!(op, 0 | 4 | 5) && v != &values[0] {
                        continue;
                    }
                    acts.push(QAct::EntryOccupied(k.clone(), op, v.clone()));
                }
                acts.push(QAct::EntryAndModifyOrInsert(k.clone(), v.clone(), values[(values.iter().position(|x| x == v).unwrap() + 1) % values.len()].clone()));
            }
        }
        for p in 0..8u8 {
            acts.push(QAct::Retain(p));
            for v in &values {
                acts.push(QAct::RetainMut(p, v.clone()));
            }
        }
        acts.push(QAct::Clear);
        for which in 0..4u8 {
            for v in &values {
                acts.push(QAct::IterMutWrite(which, v.clone()));
            }
        }
        acts.push(QAct::Reserve(0));
        acts.push(QAct::Reserve(7));
        acts.push(QAct::Reserve(200));
        if typed {
            for v in ["", "x", "https://e.x/?a=1&b=2"] {
                acts.push(QAct::InsertTypedRepo(v.to_owned()));
            }
            for v in ["a:00", "B:ff,a:0A", "a:0", "zz", "a:00,A:11"] {
                acts.push(QAct::TryInsertTypedChecksum(v.to_owned()));
            }
            acts.push(QAct::RemoveTypedRepo);
            acts.push(QAct::RemoveTypedChecksum);
        }
        QModel { name: if typed { "quals-typed-bfs" } else { "quals-bfs" }, keys, invalid, values, acts, typed, init_from_pairs: if typed { 1 } else { 3 } }
    }

    fn viol(&self, acc: &mut Acc, trace: &dyn Fn() -> Value, kind: &str, detail: String) {
        acc.violate(Violation { prop: "C11", kind: kind.into(), case: trace(), detail });
    }
}

impl Model for QModel {
    type State = QState;
    type Action = QAct;

    fn name(&self) -> &'static str {
        self.name
    }

    fn inits(&self, acc: &mut Acc) -> Vec<(Value, QState)> {
        let mut out = vec![(json!("default"), QState { real: Qualifiers::default(), refm: BTreeMap::new() }), (json!("with_capacity(3)"), QState { real: Qualifiers::with_capacity(3), refm: BTreeMap::new() })];
        // try_from_iter on all pair sequences up to the bound: oracle + non-initial starting states
        let all_keys: Vec<&String> = self.keys.iter().chain(self.invalid.iter()).collect();
        let mut pairs: Vec<(String, String)> = Vec::new();
        for k in &all_keys {
            for v in &self.values {
                pairs.push(((*k).clone(), v.clone()));
            }
        }
        let mut seqs: Vec<Vec<usize>> = vec![vec![]];
        let mut layer: Vec<Vec<usize>> = vec![vec![]];
        for _ in 0..self.init_from_pairs {
            let mut next = Vec::new();
            for s in &layer {
                for i in 0..pairs.len() {
                    let mut t = s.clone();
                    t.push(i);
                    next.push(t);
                }
            }
            seqs.extend(next.iter().cloned());
            layer = next;
            if seqs.len() > 400_000 {
                break;
            }
        }
        for seq in seqs {
            let items: Vec<(String, String)> = seq.iter().map(|i| pairs[*i].clone()).collect();
            let label = json!({"try_from_iter": items});
            acc.calls += 2;
            let got = Qualifiers::try_from_iter(items.iter().map(|(k, v)| (k.as_str(), v.as_str())));
            // the same pairs through an iterator whose size hint is only a lower bound of zero
            let got_inexact = Qualifiers::try_from_iter(items.iter().map(|(k, v)| (k.as_str(), v.as_str())).filter(|_| true));
            // ... and through iterators with every other legitimate shape of size hint
            let n_items = items.len();
            for hint in [(0usize, None), (0, Some(usize::MAX)), (0, Some(n_items)), (n_items, None), (n_items, Some(usize::MAX)), (n_items / 2, Some(n_items + 1000))] {
                acc.calls += 1;
                let via = guarded(|| Qualifiers::try_from_iter(Hinted { inner: items.iter().map(|(k, v)| (k.as_str(), v.as_str())), hint }));
                match (&via, &got) {
                    (Ok(Ok(a)), Ok(b)) if a == b => {},
                    (Ok(Err(_)), Err(_)) => {},
                    (Err(m), _) => acc.violate(Violation { prop: "C06", kind: "panic".into(), case: json!({"engine": self.name, "init": label, "actions": [], "size_hint": format!("{:?}", hint)}), detail: format!("try_from_iter panics for an iterator with size hint {:?}: {m}", hint) }),
                    _ => acc.violate(Violation { prop: "C11", kind: "try_from_iter-depends-on-size-hint".into(), case: json!({"engine": self.name, "init": label, "actions": []}), detail: format!("size hint {:?}: {:?}; array-backed iterator: {:?}", hint, via.as_ref().map(|r| r.as_ref().map(content).map_err(|e| e.to_string())), got.as_ref().map(content).map_err(|e| e.to_string())) }),
                }
            }
            match (&got, &got_inexact) {
                (Ok(a), Ok(b)) if a == b => {},
                (Err(_), Err(_)) => {},
                _ => acc.violate(Violation { prop: "C11", kind: "try_from_iter-depends-on-size-hint".into(), case: json!({"engine": self.name, "init": label, "actions": []}), detail: format!("array-backed iterator: {:?}, filtered iterator: {:?}", got.as_ref().map(content).map_err(|e| e.to_string()), got_inexact.as_ref().map(content).map_err(|e| e.to_string())) }),
            }
            let mut want: Option<BTreeMap<String, String>> = Some(BTreeMap::new());
            for (k, v) in &items {
                if !R::valid_key(k) {
                    want = None;
                    break;
                }
                if want.as_mut().unwrap().insert(lower(k), v.clone()).is_some() {
                    want = None;
                    break;
                }
            }
            acc.count("try_from_iter_sequences");
            match (got, want) {
                (Ok(q), Some(w)) => {
                    if content(&q) != w.iter().map(|(k, v)| (k.clone(), v.clone())).collect::<Vec<_>>() {
                        acc.violate(Violation { prop: "C11", kind: "try_from_iter-content".into(), case: json!({"engine": self.name, "init": label, "actions": []}), detail: format!("content {:?}, reference {:?}", content(&q), w) });
                    }
                    out.push((label, QState { real: q, refm: w }));
                },
                (Err(_), None) => {},
                (Ok(q), None) => acc.violate(Violation { prop: "C11", kind: "try_from_iter-accepts".into(), case: json!({"engine": self.name, "init": label, "actions": []}), detail: format!("accepted an invalid or repeated key: {:?}", content(&q)) }),
                (Err(e), Some(_)) => acc.violate(Violation { prop: "C11", kind: "try_from_iter-refuses".into(), case: json!({"engine": self.name, "init": label, "actions": []}), detail: format!("refused valid distinct keys: {e}") }),
            }
        }
        out
    }

    fn actions(&self) -> &[QAct] {
        &self.acts
    }

    fn action_json(&self, a: &QAct) -> Value {
        json!(format!("{:?}", a))
    }

    fn key(&self, s: &QState) -> String {
        format!("{:?}|{:?}", s.refm, content(&s.real))
    }

    fn same_object(&self, a: &QState, b: &QState) -> Option<String> {
        if a.real != b.real {
            return Some(format!("same content {:?} but the collections are not equal", a.refm));
        }
        if hash_of(&a.real) != hash_of(&b.real) {
            return Some(format!("same content {:?} but the collections hash differently", a.refm));
        }
        if a.real.cmp(&b.real) != std::cmp::Ordering::Equal {
            return Some(format!("same content {:?} but cmp is not Equal", a.refm));
        }
        None
    }

    fn check_new_state(&self, s: &QState, trace: &dyn Fn() -> Value, acc: &mut Acc) {
        let q = &s.real;
        let want: Vec<(String, String)> = s.refm.iter().map(|(k, v)| (k.clone(), v.clone())).collect();
        macro_rules! bad {
            ($kind:expr, $($arg:tt)*) => { self.viol(acc, trace, $kind, format!($($arg)*)) };
        }
        // every iterator method an implementation might provide itself instead of inheriting it
        // (nth, nth_back, last, count, fold, rev + skip / step_by, after a partial consumption), called
        // on the concrete iterator types and compared with the same call on the reference list
        {
            let n = want.len();
            let owned = |kv: (&purl::qualifiers::QualifierKey, &str)| (kv.0.as_str().to_owned(), kv.1.to_owned());
            let owned_mut = |kv: (&purl::qualifiers::QualifierKey, &mut SStr)| (kv.0.as_str().to_owned(), kv.1.to_string());
            for k in 0..=(n + 1).min(6) {
                for pre in 0..3usize {
                    // pre: 0 = fresh iterator, 1 = one item taken from the front first, 2 = one from the back first
                    let mut r = want.clone().into_iter();
                    let mut it = q.iter();
                    let mut c = q.clone();
                    let mut im = c.iter_mut();
                    match pre {
                        1 => {
                            let _ = (r.next(), it.next(), im.next());
                        },
                        2 => {
                            let _ = (r.next_back(), it.next_back(), im.next_back());
                        },
                        _ => {},
                    }
                    let mut r2 = r.clone();
                    let mut it2 = q.iter();
                    match pre {
                        1 => {
                            let _ = it2.next();
                        },
                        2 => {
                            let _ = it2.next_back();
                        },
                        _ => {},
                    }
                    let w = r.nth(k);
                    if it.nth(k).map(owned) != w {
                        bad!("iter-nth", "iter() [pre {pre}] .nth({k}) differs from the reference {:?}", w);
                    }
                    if im.nth(k).map(owned_mut) != w {
                        bad!("iter_mut-nth", "iter_mut() [pre {pre}] .nth({k}) differs from the reference {:?}", w);
                    }
                    // what is left afterwards
                    if it.len() != r.len() || im.len() != r.len() {
                        bad!("iter-nth-len", "after nth({k}) [pre {pre}]: {} / {} items left, reference {}", it.len(), im.len(), r.len());
                    }
                    let wb = r2.nth_back(k);
                    if it2.nth_back(k).map(owned) != wb {
                        bad!("iter-nth_back", "iter() [pre {pre}] .nth_back({k}) differs from the reference {:?}", wb);
                    }
                    let mut c2 = q.clone();
                    let mut im2 = c2.iter_mut();
                    match pre {
                        1 => {
                            let _ = im2.next();
                        },
                        2 => {
                            let _ = im2.next_back();
                        },
                        _ => {},
                    }
                    if im2.nth_back(k).map(owned_mut) != wb {
                        bad!("iter_mut-nth_back", "iter_mut() [pre {pre}] .nth_back({k}) differs from the reference {:?}", wb);
                    }
                    if it2.len() != r2.len() || im2.len() != r2.len() {
                        bad!("iter-nth_back-len", "after nth_back({k}) [pre {pre}]: {} / {} items left, reference {}", it2.len(), im2.len(), r2.len());
                    }
                }
                // adapters that std routes through nth / nth_back / fold
                let w: Vec<(String, String)> = want.iter().cloned().rev().skip(k).collect();
                if q.iter().rev().skip(k).map(owned).collect::<Vec<_>>() != w {
                    bad!("iter-rev-skip", "iter().rev().skip({k}) differs from the reference");
                }
                let mut c = q.clone();
                if c.iter_mut().rev().skip(k).map(owned_mut).collect::<Vec<_>>() != w {
                    bad!("iter_mut-rev-skip", "iter_mut().rev().skip({k}) differs from the reference");
                }
                let w: Vec<(String, String)> = want.iter().cloned().skip(k).step_by(2).collect();
                if q.iter().skip(k).step_by(2).map(owned).collect::<Vec<_>>() != w {
                    bad!("iter-skip-step_by", "iter().skip({k}).step_by(2) differs from the reference");
                }
                let mut c = q.clone();
                if c.iter_mut().skip(k).step_by(2).map(owned_mut).collect::<Vec<_>>() != w {
                    bad!("iter_mut-skip-step_by", "iter_mut().skip({k}).step_by(2) differs from the reference");
                }
            }
            let mut c = q.clone();
            if q.iter().last().map(owned) != want.last().cloned() || c.iter_mut().last().map(owned_mut) != want.last().cloned() {
                bad!("iter-last", "last() differs from the reference");
            }
            let mut c = q.clone();
            if q.iter().count() != n || c.iter_mut().count() != n {
                bad!("iter-count", "count() differs from the reference {n}");
            }
            let folded = q.iter().fold(String::new(), |mut a, (k, v)| {
                a.push_str(k.as_str());
                a.push_str(v);
                a
            });
            let rfolded = q.iter().rfold(String::new(), |mut a, (k, v)| {
                a.insert_str(0, v);
                a.insert_str(0, k.as_str());
                a
            });
            let wf: String = want.iter().map(|(k, v)| format!("{k}{v}")).collect();
            if folded != wf || rfolded != wf {
                bad!("iter-fold", "fold / rfold visit {:?} / {:?}, reference {:?}", folded, rfolded, wf);
            }
        }
        // the same through the mutable iterators (on a clone): each pair exactly once, from both ends
        // in every alternation pattern, size_hint exact, and the items are the stored pairs
        for pattern in 0..3u8 {
            let mut c = q.clone();
            let n = c.len();
            let mut seen: Vec<(String, String)> = Vec::new();
            let mut back: Vec<(String, String)> = Vec::new();
            {
                let mut it = if pattern == 2 { (&mut c).into_iter() } else { c.iter_mut() };
                let mut step = 0usize;
                loop {
                    let before = it.len();
                    if it.size_hint() != (before, Some(before)) {
                        bad!("iter_mut-size_hint", "size_hint {:?} with {} items left", it.size_hint(), before);
                    }
                    let from_front = match pattern {
                        0 => step % 2 == 0,
                        1 => step % 3 != 0,
                        _ => step % 2 == 1,
                    };
                    let item = if from_front { it.next() } else { it.next_back() };
                    let Some((k, v)) = item else { break };
                    if from_front {
                        seen.push((k.as_str().to_owned(), v.to_string()));
                    } else {
                        back.push((k.as_str().to_owned(), v.to_string()));
                    }
                    if it.len() + 1 != before {
                        bad!("iter_mut-len", "mutable iterator length does not decrease by one");
                    }
                    step += 1;
                    if step > n + 2 {
                        bad!("iter_mut-endless", "mutable iterator yields more items than the collection holds");
                        break;
                    }
                }
            }
            back.reverse();
            seen.extend(back);
            if seen != want {
                bad!("iter_mut-items", "iter_mut (pattern {pattern}) yields {:?}, reference {:?}", seen, want);
            }
        }
        // Index on every absent key of the universe: panics (documented), never returns a value
        for k in self.keys.iter().chain(self.invalid.iter()) {
            let present = R::valid_key(k) && s.refm.contains_key(&lower(k));
            if present {
                continue;
            }
            acc.calls += 1;
            match guarded(|| q[k.as_str()].to_string()) {
                Err(_) => acc.count("documented_panic_index_absent"),
                Ok(v) => self.viol(acc, trace, "index-absent", format!("Index[{:?}] = {:?} although absent", k, v)),
            }
        }
    }

    fn step(&self, s: &QState, a: &QAct, trace: &dyn Fn() -> Value, acc: &mut Acc) -> QState {
        let mut q = s.real.clone();
        let mut r = s.refm.clone();
        acc.calls += 1;
        macro_rules! bad {
            ($kind:expr, $($arg:tt)*) => { self.viol(acc, trace, $kind, format!($($arg)*)) };
        }
        match a {
            QAct::Insert(k, v) => {
                let valid = R::valid_key(k);
                match q.insert(k.as_str(), v.as_str()) {
                    Ok(slot) => {
                        if !valid {
                            bad!("insert-accepts-invalid", "insert({:?}) accepted", k);
                        }
                        if slot.as_str() != v {
                            bad!("insert-return", "insert({:?},{:?}) returned a reference to {:?}", k, v, slot);
                        }
                        r.insert(lower(k), v.clone());
                    },
                    Err(_) => {
                        if valid {
                            bad!("insert-refuses-valid", "insert({:?}) refused", k);
                        }
                    },
                }
            },
            QAct::Remove(k) => {
                let got = q.remove(k.as_str()).map(|x| x.to_string());
                let want = if R::valid_key(k) { r.remove(&lower(k)) } else { None };
                if got != want {
                    bad!("remove-return", "remove({:?}) returned {:?}, reference {:?}", k, got, want);
                }
            },
            QAct::GetMutWrite(k, w) => {
                let want = if R::valid_key(k) { r.get_mut(&lower(k)) } else { None };
                match (q.get_mut(k.as_str()), want) {
                    (Some(slot), Some(rv)) => {
                        if slot.as_str() != rv {
                            bad!("get_mut-value", "get_mut({:?}) sees {:?}, reference {:?}", k, slot, rv);
                        }
                        *slot = w.as_str().into();
                        *rv = w.clone();
                    },
                    (None, None) => {},
                    (g, w2) => bad!("get_mut-presence", "get_mut({:?}) is {:?}, reference {:?}", k, g.map(|x| x.to_string()), w2),
                }
            },
            QAct::IndexMutWrite(k, w) => {
                let present = R::valid_key(k) && r.contains_key(&lower(k));
                // documented panic: indexing an absent qualifier
                let res = guarded(|| {
                    q[k.as_str()] = w.as_str().into();
                });
                match (res, present) {
                    (Ok(()), true) => {
                        r.insert(lower(k), w.clone());
                    },
                    (Err(_), false) => {
                        acc.count("documented_panic_index_absent");
                    },
                    (Ok(()), false) => {
                        bad!("index_mut-absent", "IndexMut[{:?}] did not panic although the key is absent", k);
                    },
                    (Err(m), true) => bad!("index_mut-present-panics", "IndexMut[{:?}] panicked although the key is present: {m}", k),
                }
            },
            QAct::EntryOrInsert(k, v) | QAct::EntryOrInsertWith(k, v) => {
                let valid = R::valid_key(k);
                match q.entry(k.as_str()) {
                    Err(_) => {
                        if valid {
                            bad!("entry-refuses-valid", "entry({:?}) refused", k);
                        }
                    },
                    Ok(e) => {
                        if !valid {
                            bad!("entry-accepts-invalid", "entry({:?}) accepted", k);
                        }
                        let slot = if matches!(a, QAct::EntryOrInsert(..)) { e.or_insert(v.as_str()) } else { e.or_insert_with(|| v.as_str()) };
                        let want = r.entry(lower(k)).or_insert(v.clone());
                        if slot.as_str() != want {
                            bad!("entry-or_insert", "entry({:?}).or_insert({:?}) gives {:?}, reference {:?}", k, v, slot, want);
                        }
                    },
                }
            },
            QAct::EntryAndModifyOrInsert(k, w, v) => {
                if let Ok(e) = q.entry(k.as_str()) {
                    if !R::valid_key(k) {
                        bad!("entry-accepts-invalid", "entry({:?}) accepted", k);
                    }
                    let slot = e.and_modify(|x| *x = w.as_str().into()).or_insert(v.as_str());
                    let want = r.entry(lower(k)).and_modify(|x| *x = w.clone()).or_insert(v.clone());
                    if slot.as_str() != want {
                        bad!("entry-and_modify", "entry({:?}).and_modify.or_insert gives {:?}, reference {:?}", k, slot, want);
                    }
                } else if R::valid_key(k) {
                    bad!("entry-refuses-valid", "entry({:?}) refused", k);
                }
            },
            QAct::EntryOccupied(k, op, v) => match q.entry(k.as_str()) {
                Err(_) => {
                    if R::valid_key(k) {
                        bad!("entry-refuses-valid", "entry({:?}) refused", k);
                    }
                },
                Ok(Entry::Vacant(_)) => {
                    if r.contains_key(&lower(k)) {
                        bad!("entry-classification", "entry({:?}) is Vacant, reference has the key", k);
                    }
                },
                Ok(Entry::Occupied(mut o)) => {
                    let lk = lower(k);
                    let cur = match r.get(&lk).cloned() {
                        Some(c) => c,
                        None => {
                            bad!("entry-classification", "entry({:?}) is Occupied, reference lacks the key", k);
                            o.get().to_owned()
                        },
                    };
                    match op {
                        0 => {
                            if o.get() != cur {
                                bad!("occupied-get", "get() = {:?}, reference {:?}", o.get(), cur);
                            }
                        },
                        1 => {
                            if o.get_mut().as_str() != cur {
                                bad!("occupied-get_mut", "get_mut() sees {:?}, reference {:?}", o.get(), cur);
                            }
                            *o.get_mut() = v.as_str().into();
                            r.insert(lk, v.clone());
                        },
                        2 => {
                            let slot = o.into_mut();
                            if slot.as_str() != cur {
                                bad!("occupied-into_mut", "into_mut() sees {:?}, reference {:?}", slot, cur);
                            }
                            *slot = v.as_str().into();
                            r.insert(lk, v.clone());
                        },
                        3 => {
                            let old = o.insert(v.as_str());
                            if old.as_str() != cur {
                                bad!("occupied-insert", "insert() returned {:?}, reference {:?}", old, cur);
                            }
                            r.insert(lk, v.clone());
                        },
                        4 => {
                            let old = o.remove();
                            if old.as_str() != cur {
                                bad!("occupied-remove", "remove() returned {:?}, reference {:?}", old, cur);
                            }
                            r.remove(&lk);
                        },
                        _ => {
                            let (ok, ov) = o.remove_entry();
                            if ok.as_str() != lk || ov.as_str() != cur {
                                bad!("occupied-remove_entry", "remove_entry() returned ({:?},{:?}), reference ({:?},{:?})", ok, ov, lk, cur);
                            }
                            r.remove(&lk);
                        },
                    }
                },
            },
            QAct::EntryVacantInsert(k, v) => match q.entry(k.as_str()) {
                Err(_) => {
                    if R::valid_key(k) {
                        bad!("entry-refuses-valid", "entry({:?}) refused", k);
                    }
                },
                Ok(Entry::Occupied(_)) => {
                    if !r.contains_key(&lower(k)) {
                        bad!("entry-classification", "entry({:?}) is Occupied, reference lacks the key", k);
                    }
                },
                Ok(Entry::Vacant(ve)) => {
                    if r.contains_key(&lower(k)) {
                        bad!("entry-classification", "entry({:?}) is Vacant, reference has the key", k);
                    }
                    let slot = ve.insert(v.as_str());
                    if slot.as_str() != v {
                        bad!("vacant-insert", "VacantEntry::insert({:?}) returned a reference to {:?}", v, slot);
                    }
                    r.insert(lower(k), v.clone());
                },
            },
            QAct::Retain(p) => {
                let mut seen: Vec<String> = Vec::new();
                q.retain(|k, v| {
                    seen.push(k.as_str().to_owned());
                    pred_real(*p, k, v)
                });
                // every pair is offered to the predicate exactly once (the order is not demanded)
                let mut sorted = seen.clone();
                sorted.sort();
                if sorted != r.keys().cloned().collect::<Vec<_>>() {
                    bad!("retain-visits", "retain offered {:?} to the predicate, reference keys {:?}", seen, r.keys().collect::<Vec<_>>());
                }
                r.retain(|k, v| pred_ref(*p, k, v));
            },
            QAct::RetainMut(p, w) => {
                let mut seen: Vec<String> = Vec::new();
                q.retain_mut(|k, v| {
                    seen.push(k.as_str().to_owned());
                    let keep = pred_real(*p, k, v);
                    *v = w.as_str().into();
                    keep
                });
                // every pair is offered exactly once (a predicate may count its calls or change the value it decides on)
                seen.sort();
                if seen != r.keys().cloned().collect::<Vec<_>>() {
                    bad!("retain-visits", "retain_mut offered {:?} to the predicate, reference keys {:?}", seen, r.keys().collect::<Vec<_>>());
                }
                r.retain(|k, v| {
                    let keep = pred_ref(*p, k, v);
                    *v = w.clone();
                    keep
                });
            },
            QAct::Clear => {
                q.clear();
                r.clear();
            },
            QAct::IterMutWrite(which, w) => {
                let n = r.len();
                {
                    let mut it = q.iter_mut();
                    if it.len() != n {
                        bad!("iter_mut-len", "iter_mut().len() = {}, reference {}", it.len(), n);
                    }
                    match which {
                        0 => {
                            if let Some((_, v)) = it.next() {
                                *v = w.as_str().into();
                            }
                        },
                        1 => {
                            if let Some((_, v)) = it.next_back() {
                                *v = w.as_str().into();
                            }
                        },
                        2 => {
                            // alternate ends; write only to elements taken from the back
                            let mut front = true;
                            loop {
                                let item = if front { it.next() } else { it.next_back() };
                                match item {
                                    None => break,
                                    Some((_, v)) => {
                                        if !front {
                                            *v = w.as_str().into();
                                        }
                                    },
                                }
                                front = !front;
                            }
                        },
                        _ => {
                            for (_, v) in &mut q {
                                *v = w.as_str().into();
                            }
                        },
                    }
                }
                let keys: Vec<String> = r.keys().cloned().collect();
                match which {
                    0 => {
                        if let Some(k) = keys.first() {
                            r.insert(k.clone(), w.clone());
                        }
                    },
                    1 => {
                        if let Some(k) = keys.last() {
                            r.insert(k.clone(), w.clone());
                        }
                    },
                    2 => {
                        // front takes 0, back takes n-1, front takes 1, back takes n-2, ...
                        let (mut lo, mut hi) = (0usize, n);
                        let mut front = true;
                        while lo < hi {
                            if front {
                                lo += 1;
                            } else {
                                hi -= 1;
                                r.insert(keys[hi].clone(), w.clone());
                            }
                            front = !front;
                        }
                    },
                    _ => {
                        for k in keys {
                            r.insert(k, w.clone());
                        }
                    },
                }
            },
            QAct::Reserve(n) => {
                if *n == 0 {
                    q.reserve_exact(2);
                } else {
                    q.reserve(*n as usize);
                }
                if q.capacity() < q.len() {
                    bad!("capacity", "capacity {} < len {}", q.capacity(), q.len());
                }
            },
            QAct::InsertTypedRepo(v) => {
                let v: &'static str = crate::builders::intern(v);
                q.insert_typed(RepositoryUrl::from(v));
                r.insert("repository_url".into(), v.to_owned());
            },
            QAct::TryInsertTypedChecksum(text) => {
                let text: &'static str = crate::builders::intern(text);
                match Checksum::try_from(text) {
                    Err(_) => {
                        if R::checksum_canonical(text).is_some() || text.split(',').all(|e| e.contains(':')) && {
                            // duplicates make try_from fail too
                            let mut algs: Vec<String> = text.split(',').filter_map(|e| e.rfind(':').map(|i| R::lower_per_char(&e[..i]))).collect();
                            let n = algs.len();
                            algs.sort();
                            algs.dedup();
                            algs.len() == n
                        } {
                            bad!("checksum-try_from", "Checksum::try_from({:?}) refused", text);
                        }
                    },
                    Ok(c) => match q.try_insert_typed(c) {
                        Ok(()) => match R::checksum_canonical(text) {
                            Some(canon) => {
                                r.insert("checksum".into(), canon);
                            },
                            None => bad!("try_insert_typed-accepts", "try_insert_typed accepted malformed checksum {:?}", text),
                        },
                        Err(_) => {
                            if R::checksum_canonical(text).is_some() {
                                bad!("try_insert_typed-refuses", "try_insert_typed refused well-formed checksum {:?}", text);
                            }
                        },
                    },
                }
            },
            QAct::InsertTypedOther(kind, v) => {
                let v: &'static str = crate::builders::intern(v);
                insert_other(&mut q, *kind, v);
                r.insert(OTHER_TYPED[*kind as usize].to_owned(), v.to_owned());
            },
            QAct::RemoveTypedOther(kind) => {
                remove_other(&mut q, *kind);
                r.remove(OTHER_TYPED[*kind as usize]);
            },
            QAct::TypedInvalidKey(which) => {
                // the documented panic (insert) or a refusal / no-op: either way nothing may change,
                // which the state oracle checks on the returned state
                let res = guarded(|| match which {
                    0 => {
                        q.insert_typed(BadKeyTag("v"));
                        "returned".to_owned()
                    },
                    1 => format!("{:?}", q.try_insert_typed(BadKeyTag("v")).map_err(|e: std::convert::Infallible| e)),
                    2 => {
                        q.remove_typed::<BadKeyTag>();
                        "returned".to_owned()
                    },
                    _ => format!("{:?} {}", q.get_typed::<BadKeyTag>().map(|x| x.0.to_owned()), q.contains_typed::<BadKeyTag>()),
                });
                match (&res, which) {
                    (Err(_), 0 | 1) => acc.count("documented_panic_insert_typed_invalid_key"),
                    (Err(m), _) => bad!("typed-invalid-key-panics", "remove_typed / get_typed with an invalid declared key panics: {m}"),
                    (Ok(t), 3) if t != "None false" => bad!("typed-invalid-key-found", "get_typed / contains_typed with an invalid declared key report {t}"),
                    _ => {},
                }
            },
            QAct::RemoveTypedRepo => {
                q.remove_typed::<RepositoryUrl>();
                r.remove("repository_url");
            },
            QAct::RemoveTypedChecksum => {
                q.remove_typed::<Checksum>();
                r.remove("checksum");
            },
        }
        QState { real: q, refm: r }
    }

    fn check_state(&self, s: &QState, trace: &dyn Fn() -> Value, acc: &mut Acc) {
        let q = &s.real;
        let want: Vec<(String, String)> = s.refm.iter().map(|(k, v)| (k.clone(), v.clone())).collect();
        let got = content(q);
        macro_rules! bad {
            ($kind:expr, $($arg:tt)*) => { self.viol(acc, trace, $kind, format!($($arg)*)) };
        }
        acc.calls += 4;
        if got != want {
            bad!("content", "content {:?}, reference {:?}", got, want);
        }
        if !got.windows(2).all(|w| w[0].0 < w[1].0) {
            bad!("order", "iteration is not strictly ascending: {:?}", got);
        }
        let mut rev: Vec<(String, String)> = q.iter().rev().map(|(k, v)| (k.as_str().to_owned(), v.to_owned())).collect();
        rev.reverse();
        if rev != got {
            bad!("rev", "iter().rev() is not the mirror of iter(): {:?}", rev);
        }
        let via_ref: Vec<(String, String)> = (&*q).into_iter().map(|(k, v)| (k.as_str().to_owned(), v.to_owned())).collect();
        if via_ref != got {
            bad!("into_iter", "(&q).into_iter() differs from iter()");
        }
        if q.len() != want.len() || q.is_empty() != want.is_empty() || q.iter().len() != want.len() {
            bad!("len", "len {} / is_empty {} / iter().len() {}, reference {}", q.len(), q.is_empty(), q.iter().len(), want.len());
        }
        // mixed-end iteration meets in the middle
        {
            let mut it = q.iter();
            let mut taken = 0;
            let mut front = true;
            loop {
                let before = it.len();
                let item = if front { it.next() } else { it.next_back() };
                if item.is_none() {
                    break;
                }
                taken += 1;
                if it.len() + 1 != before {
                    bad!("iter-len", "iterator length does not decrease by one");
                }
                front = !front;
            }
            if taken != want.len() {
                bad!("iter-mixed", "mixed-end iteration yields {} items, reference {}", taken, want.len());
            }
        }
        for k in self.keys.iter().chain(self.invalid.iter()) {
            acc.calls += 3;
            let w = if R::valid_key(k) { s.refm.get(&lower(k)).map(String::as_str) } else { None };
            if q.get(k.as_str()) != w {
                bad!("get", "get({:?}) = {:?}, reference {:?}", k, q.get(k.as_str()), w);
            }
            if q.contains_key(k.as_str()) != w.is_some() {
                bad!("contains_key", "contains_key({:?}) = {}, reference {}", k, q.contains_key(k.as_str()), w.is_some());
            }
            // Index on a present key (on absent keys: the documented panic, see check_new_state)
            if let Some(wv) = w {
                match guarded(|| q[k.as_str()].to_string()) {
                    Ok(v) => {
                        if v != wv {
                            bad!("index", "Index[{:?}] = {:?}, reference {:?}", k, v, wv);
                        }
                    },
                    Err(m) => bad!("index-present-panics", "Index[{:?}] panicked although present: {m}", k),
                }
            }
        }
        // QualifierKey: every view of a stored key is the lower-case key
        for (k, _) in q.iter() {
            let s1: &str = k.as_str();
            let s2: &str = k;
            let s3: &str = k.as_ref();
            let owned: SStr = SStr::from(k);
            let owned2: SStr = SStr::from(k.clone());
            if s1 != s2 || s1 != s3 || owned.as_str() != s1 || owned2.as_str() != s1 || s1.bytes().any(|b| b.is_ascii_uppercase()) {
                bad!("key-views", "views of key {:?} disagree", s1);
            }
            if !(*k == *s1) || !(*k == s1.to_ascii_uppercase()) || k.partial_cmp(s1) != Some(std::cmp::Ordering::Equal) {
                bad!("key-compare", "key {:?} does not compare equal to its own spelling in either case", s1);
            }
        }
        if self.typed {
            acc.calls += 4;
            for kind in 0..OTHER_TYPED.len() as u8 {
                let want = s.refm.get(OTHER_TYPED[kind as usize]).cloned();
                let (got, has) = get_other(q, kind);
                if got != want || has != want.is_some() {
                    bad!("typed-accessor", "typed accessor for {:?} gives {:?} / contains {}, reference {:?}", OTHER_TYPED[kind as usize], got, has, want);
                }
            }
            let repo = q.get_typed::<RepositoryUrl>().map(|r| r.to_string());
            if repo.as_deref() != s.refm.get("repository_url").map(String::as_str) {
                bad!("get_typed", "get_typed::<RepositoryUrl>() = {:?}", repo);
            }
            if q.contains_typed::<RepositoryUrl>() != s.refm.contains_key("repository_url") || q.contains_typed::<Checksum>() != s.refm.contains_key("checksum") {
                bad!("contains_typed", "contains_typed disagrees with the reference");
            }
            match (q.try_get_typed::<Checksum>(), s.refm.get("checksum")) {
                (Ok(None), None) => {},
                (Ok(Some(c)), Some(text)) => {
                    let mut entries: Vec<(String, String)> = c.iter().map(|(k, v)| (k.to_owned(), v.raw().to_owned())).collect();
                    entries.sort();
                    let mut want: Vec<(String, String)> = text.split(',').filter_map(|e| e.rfind(':').map(|i| (R::lower_per_char(&e[..i]), e[i + 1..].to_owned()))).collect();
                    want.sort();
                    if entries != want {
                        bad!("try_get_typed", "try_get_typed::<Checksum>() entries {:?}, text {:?}", entries, text);
                    }
                },
                (Err(_), Some(text)) => {
                    // refused: only legitimate when an entry lacks ':' or an algorithm repeats
                    let ok_entries = text.split(',').all(|e| e.contains(':'));
                    let mut algs: Vec<String> = text.split(',').filter_map(|e| e.rfind(':').map(|i| R::lower_per_char(&e[..i]))).collect();
                    let n = algs.len();
                    algs.sort();
                    algs.dedup();
                    if ok_entries && algs.len() == n {
                        bad!("try_get_typed-refuses", "try_get_typed::<Checksum>() refuses {:?}", text);
                    }
                },
                (g, w) => bad!("try_get_typed-presence", "try_get_typed::<Checksum>() presence {:?} vs reference {:?}", g.map(|x| x.is_some()), w),
            }
        }
        acc.sig(&(want.len(), want.iter().filter(|(_, v)| v.is_empty()).count()));
    }
}

/// All pairs of reached contents: equality, hashing and ordering follow the reference contents.
pub fn pairwise(states: &[QState], acc: &mut Acc) {
    let n = states.len();
    let contents: Vec<Vec<(String, String)>> = states.iter().map(|s| s.refm.iter().map(|(k, v)| (k.clone(), v.clone())).collect()).collect();
    let hashes: Vec<u64> = states.iter().map(|s| hash_of(&s.real)).collect();
    for i in 0..n {
        for j in 0..n {
            acc.calls += 2;
            let want = contents[i].cmp(&contents[j]);
            let got = states[i].real.cmp(&states[j].real);
            let eq = states[i].real == states[j].real;
            let case = || json!({"engine": "quals-pairs", "a": contents[i], "b": contents[j]});
            if got != want || states[i].real.partial_cmp(&states[j].real) != Some(want) {
                acc.violate(Violation { prop: "C11", kind: "cmp".into(), case: case(), detail: format!("cmp = {:?}, lexicographic order of the contents = {:?}", got, want) });
            }
            if eq != (want == std::cmp::Ordering::Equal) {
                acc.violate(Violation { prop: "C11", kind: "eq".into(), case: case(), detail: format!("== is {eq} for contents {:?} / {:?}", contents[i], contents[j]) });
            }
            if eq && hashes[i] != hashes[j] {
                acc.violate(Violation { prop: "C11", kind: "hash".into(), case: case(), detail: "equal collections hash differently".into() });
            }
        }
    }
    acc.add("content_pairs_compared", (n * n) as u64);
}

/// Long histories on larger collections (sizes beyond the BFS universe): 12 keys inserted in four
/// orders and removed in three, with the full state oracle after every step. Deterministic.
pub fn long_histories(acc: &mut Acc) -> Value {
    let keys: Vec<String> = ["a", "ab", "a_", "b", "b-1", "b.2", "c", "k", "m9", "n_n", "z", "zz"].iter().map(|s| s.to_string()).collect();
    let n = keys.len();
    let asc: Vec<usize> = (0..n).collect();
    let desc: Vec<usize> = (0..n).rev().collect();
    let zigzag: Vec<usize> = (0..n).map(|i| if i % 2 == 0 { i / 2 } else { n - 1 - i / 2 }).collect();
    let riffle: Vec<usize> = (0..n).map(|i| (i * 5) % n).collect();
    let middle_out: Vec<usize> = (0..n).map(|i| if i % 2 == 0 { n / 2 + i / 2 } else { n / 2 - 1 - i / 2 }).collect();
    let m = QModel { name: "quals-long", keys: keys.clone(), invalid: vec!["".into(), "\u{212A}".into()], values: vec![], acts: vec![], typed: false, init_from_pairs: 0 };
    let mut steps = 0u64;
    for (oi, order) in [&asc, &desc, &zigzag, &riffle].iter().enumerate() {
        for (ri, rem) in [&asc, &desc, &middle_out].iter().enumerate() {
            let mut st = QState { real: Qualifiers::default(), refm: BTreeMap::new() };
            let mut history: Vec<Value> = Vec::new();
            for (j, i) in order.iter().enumerate() {
                // alternate the letter case and the API used
                let k = if j % 2 == 0 { keys[*i].clone() } else { keys[*i].to_ascii_uppercase() };
                let act = match j % 3 {
                    0 => QAct::Insert(k, format!("v{j}")),
                    1 => QAct::EntryVacantInsert(k, format!("v{j}")),
                    _ => QAct::EntryOrInsert(k, format!("v{j}")),
                };
                history.push(json!(format!("{:?}", act)));
                let tr = || json!({"engine": "quals-long", "insert_order": oi, "remove_order": ri, "history": history});
                match guarded(|| {
                    let nx = m.step(&st, &act, &tr, acc);
                    m.check_state(&nx, &tr, acc);
                    nx
                }) {
                    Ok(nx) => st = nx,
                    Err(msg) => {
                        acc.violate(Violation { prop: "C06", kind: "panic".into(), case: tr(), detail: msg });
                        break;
                    },
                }
                steps += 1;
            }
            for (j, i) in rem.iter().enumerate() {
                let k = if j % 2 == 1 { keys[*i].clone() } else { keys[*i].to_ascii_uppercase() };
                let act = match j % 3 {
                    0 => QAct::Remove(k),
                    1 => QAct::EntryOccupied(k, 4, String::new()),
                    _ => QAct::EntryOccupied(k, 5, String::new()),
                };
                history.push(json!(format!("{:?}", act)));
                let tr = || json!({"engine": "quals-long", "insert_order": oi, "remove_order": ri, "history": history});
                match guarded(|| {
                    let nx = m.step(&st, &act, &tr, acc);
                    m.check_state(&nx, &tr, acc);
                    nx
                }) {
                    Ok(nx) => st = nx,
                    Err(msg) => {
                        acc.violate(Violation { prop: "C06", kind: "panic".into(), case: tr(), detail: msg });
                        break;
                    },
                }
                steps += 1;
            }
            if !st.real.is_empty() {
                acc.violate(Violation { prop: "C11", kind: "long-history-not-empty".into(), case: json!({"engine": "quals-long", "insert_order": oi, "remove_order": ri}), detail: format!("after removing every key the collection still holds {:?}", content(&st.real)) });
            }
        }
    }
    acc.evals += steps;
    acc.nontrivial += steps;
    json!({"engine": "C-long-histories", "keys": n, "histories": 12, "steps": steps})
}

/// Size ladder: for EVERY size n up to the bound, a collection of n keys is built (three insertion
/// orders, alternating letter case and API), then at EVERY position — each stored key, and an absent
/// key that would land just before / after it — every kind of operation is applied to a clone and
/// judged with the full state oracle. Thresholds inside the collection (a search strategy that
/// switches at some length, a growth step) lie on this ladder wherever they are below the bound.
pub fn size_ladder(tier: Tier, only_n: Option<usize>, acc: &mut Acc) -> Value {
    let nmax = match tier {
        Tier::Quick => 40usize,
        Tier::Thorough => 130usize,
    };
    let mut steps = 0u64;
    for n in 0..=nmax {
        if only_n.map(|x| x != n).unwrap_or(false) {
            continue;
        }
        let keys: Vec<String> = (0..n).map(|i| format!("q{i:03}b")).collect();
        // absent neighbours: sort just before ("q007a") and just after ("q007c") the stored key
        let mut universe: Vec<String> = keys.clone();
        for i in 0..n {
            universe.push(format!("q{i:03}a"));
            universe.push(format!("Q{i:03}C"));
        }
        universe.push("a".into());
        universe.push("zz".into());
        let m = QModel { name: "quals-ladder", keys: universe.clone(), invalid: vec!["".into(), "q000b ".into(), "\u{212A}".into()], values: vec![], acts: vec![], typed: false, init_from_pairs: 0 };
        let asc: Vec<usize> = (0..n).collect();
        let desc: Vec<usize> = (0..n).rev().collect();
        let zig: Vec<usize> = (0..n).map(|i| if i % 2 == 0 { i / 2 } else { n - 1 - i / 2 }).collect();
        let mut built: Vec<QState> = Vec::new();
        for (oi, order) in [&asc, &desc, &zig].iter().enumerate() {
            if n < 2 && oi > 0 {
                continue;
            }
            let mut st = QState { real: Qualifiers::default(), refm: BTreeMap::new() };
            let mut ok = true;
            for (j, i) in order.iter().enumerate() {
                let k = if j % 2 == 0 { keys[*i].clone() } else { keys[*i].to_ascii_uppercase() };
                let act = match (j + oi) % 3 {
                    0 => QAct::Insert(k, format!("v{i}")),
                    1 => QAct::EntryVacantInsert(k, format!("v{i}")),
                    _ => QAct::EntryOrInsert(k, format!("v{i}")),
                };
                let tr = || json!({"engine": "quals-ladder", "n": n, "insert_order": oi, "building_step": j, "action": format!("{:?}", act)});
                match guarded(|| {
                    let nx = m.step(&st, &act, &tr, acc);
                    nx
                }) {
                    Ok(nx) => st = nx,
                    Err(msg) => {
                        acc.violate(Violation { prop: "C06", kind: "panic".into(), case: tr(), detail: msg });
                        ok = false;
                        break;
                    },
                }
                steps += 1;
            }
            if !ok {
                continue;
            }
            {
                let tr = || json!({"engine": "quals-ladder", "n": n, "insert_order": oi, "action": "built"});
                if let Err(msg) = guarded(|| {
                    m.check_state(&st, &tr, acc);
                    m.check_new_state(&st, &tr, acc);
                }) {
                    acc.violate(Violation { prop: "C06", kind: "panic".into(), case: tr(), detail: msg });
                    continue;
                }
            }
            // a collection obtained in one go from the same pairs
            let pairs: Vec<(String, String)> = order.iter().map(|i| (keys[*i].clone(), format!("v{i}"))).collect();
            match Qualifiers::try_from_iter(pairs.iter().map(|(k, v)| (k.as_str(), v.as_str()))) {
                Ok(q) if q == st.real && hash_of(&q) == hash_of(&st.real) => {},
                other => acc.violate(Violation { prop: "C11", kind: "ladder-try_from_iter".into(), case: json!({"engine": "quals-ladder", "n": n, "insert_order": oi, "action": "try_from_iter"}), detail: format!("try_from_iter of the same {n} pairs gives {:?}, inserts gave {:?}", other.as_ref().map(content).map_err(|e| e.to_string()), content(&st.real)) }),
            }
            if let Some(first) = built.first() {
                if let Some(why) = m.same_object(first, &st) {
                    acc.violate(Violation { prop: "C11", kind: "same-content-objects-differ".into(), case: json!({"engine": "quals-ladder", "n": n, "insert_order": oi, "action": "compare"}), detail: why });
                }
            }
            built.push(st);
        }
        // every position x every kind of operation, on the collection built in ascending order (and the zig-zag one)
        for (bi, base) in built.iter().enumerate() {
            if bi == 1 {
                continue;
            }
            let mut acts: Vec<QAct> = Vec::new();
            for i in 0..n {
                let stored_u = keys[i].to_ascii_uppercase();
                acts.push(QAct::Insert(stored_u.clone(), "w".into()));
                acts.push(QAct::Remove(stored_u.clone()));
                acts.push(QAct::GetMutWrite(stored_u.clone(), "w".into()));
                acts.push(QAct::IndexMutWrite(stored_u.clone(), "w".into()));
                for op in 0..6u8 {
                    acts.push(QAct::EntryOccupied(stored_u.clone(), op, "w".into()));
                }
                acts.push(QAct::EntryAndModifyOrInsert(stored_u.clone(), "w".into(), "x".into()));
                for absent in [format!("q{i:03}a"), format!("Q{i:03}C")] {
                    acts.push(QAct::Insert(absent.clone(), "w".into()));
                    acts.push(QAct::EntryVacantInsert(absent.clone(), "w".into()));
                    acts.push(QAct::EntryOrInsertWith(absent.clone(), "w".into()));
                    acts.push(QAct::Remove(absent.clone()));
                    acts.push(QAct::IndexMutWrite(absent.clone(), "w".into()));
                }
            }
            for k in ["a", "ZZ", "", "q000b "] {
                acts.push(QAct::Insert(k.into(), "w".into()));
                acts.push(QAct::Remove(k.into()));
                acts.push(QAct::EntryOrInsert(k.into(), "w".into()));
            }
            for p in 0..10u8 {
                acts.push(QAct::Retain(p));
                acts.push(QAct::RetainMut(p, "w".into()));
            }
            for which in 0..4u8 {
                acts.push(QAct::IterMutWrite(which, "w".into()));
            }
            acts.push(QAct::Clear);
            acts.push(QAct::Reserve(7));
            for act in &acts {
                let tr = || json!({"engine": "quals-ladder", "n": n, "insert_order": if bi == 0 { 0 } else { 2 }, "action": format!("{:?}", act)});
                if let Err(msg) = guarded(|| {
                    let nx = m.step(base, act, &tr, acc);
                    m.check_state(&nx, &tr, acc);
                }) {
                    acc.violate(Violation { prop: "C06", kind: "panic".into(), case: tr(), detail: msg });
                }
                steps += 1;
            }
        }
    }
    acc.evals += steps;
    acc.nontrivial += steps;
    json!({"engine": "C-size-ladder", "model": "quals-ladder", "every_size_up_to": nmax, "steps": steps})
}

pub fn replay_ladder(case: &Value) -> Option<Vec<Violation>> {
    let n = case["n"].as_u64()? as usize;
    let mut acc = Acc::new();
    size_ladder(Tier::Thorough, Some(n), &mut acc);
    // only the violations of the recorded action
    let want = &case["action"];
    Some(acc.violations.into_iter().filter(|v| &v.case["action"] == want && v.case["insert_order"] == case["insert_order"]).collect())
}

/// Bulk construction at "magic" sizes: `try_from_iter` with n pairs for n around the sizes where an
/// implementation might switch strategy, in riffled order, with and without a repeated key (same /
/// other letter case, same / other value, at the start / end), through exact and inexact iterators.
pub fn bulk_sizes(tier: Tier, acc: &mut Acc) -> Value {
    let sizes: Vec<usize> = match tier {
        Tier::Quick => vec![15, 16, 17, 31, 32, 33, 63, 64, 65, 127, 128, 129, 255, 256, 257, 511, 512, 513, 1023, 1024, 1025, 1026, 2049],
        Tier::Thorough => vec![15, 16, 17, 31, 32, 33, 63, 64, 65, 127, 128, 129, 255, 256, 257, 511, 512, 513, 1000, 1023, 1024, 1025, 1026, 2047, 2048, 2049, 4095, 4096, 4097, 10000, 65535, 65536, 65537],
    };
    let a = par_items(sizes.len(), threads(), |si, acc| {
        let n = sizes[si];
        let stride = if n % 7 == 0 { 5 } else { 7 };
        let order: Vec<usize> = (0..n).map(|i| (i * stride) % n).collect();
        let mut seen = vec![false; n];
        let order: Vec<usize> = order.into_iter().filter(|i| !std::mem::replace(&mut seen[*i], true)).chain((0..n).filter(|_| false)).collect();
        let base: Vec<(String, String)> = order.iter().map(|i| (format!("k{i:05}"), format!("v{i}"))).collect();
        let want: Vec<(String, String)> = {
            let mut w = base.clone();
            w.sort();
            w
        };
        // variants: (extra pair, position) -> expectation
        let first = base[0].0.clone();
        let last = base[base.len() - 1].0.clone();
        let variants: Vec<(Option<((String, String), bool)>, bool)> = vec![
            (None, true),
            (Some(((first.clone(), "other".into()), false)), false),
            (Some(((first.to_ascii_uppercase(), "other".into()), false)), false),
            (Some(((first.clone(), base[0].1.clone()), false)), false),
            (Some(((last.to_ascii_uppercase(), "other".into()), true)), false),
            (Some((("k99999x".into(), "fresh".into()), false)), true),
        ];
        for (vi, (extra, ok)) in variants.iter().enumerate() {
            let mut items = base.clone();
            if let Some((pair, at_start)) = extra {
                if *at_start {
                    items.insert(0, pair.clone());
                } else {
                    items.push(pair.clone());
                }
            }
            for route in 0..3u8 {
                acc.evals += 1;
                acc.calls += 1;
                let case = json!({"engine": "quals-bulk", "n": n, "variant": vi, "route": route});
                let it = items.iter().map(|(k, v)| (k.as_str(), v.as_str()));
                let r = guarded(|| match route {
                    0 => Qualifiers::try_from_iter(it),
                    1 => Qualifiers::try_from_iter(it.filter(|_| true)),
                    _ => Qualifiers::try_from_iter(Hinted { inner: it, hint: (0, Some(usize::MAX)) }),
                });
                match r {
                    Err(m) => acc.violate(Violation { prop: "C06", kind: "panic".into(), case, detail: m }),
                    Ok(Err(_)) if !*ok => acc.sig(&("bulk-refused", vi)),
                    Ok(Ok(q)) if *ok => {
                        let mut w = want.clone();
                        if let Some((pair, _)) = extra {
                            w.push(pair.clone());
                            w.sort();
                        }
                        if content(&q) != w || q.len() != w.len() || q.get(first.to_ascii_uppercase().as_str()) != Some(base[0].1.as_str()) {
                            acc.violate(Violation { prop: "C11", kind: "bulk-content".into(), case, detail: format!("try_from_iter of {} distinct pairs: length {}, first keys {:?}", items.len(), q.len(), content(&q).iter().take(3).collect::<Vec<_>>()) });
                        }
                        acc.sig(&("bulk-ok", vi));
                    },
                    Ok(Ok(q)) => acc.violate(Violation { prop: "C11", kind: "try_from_iter-accepts".into(), case, detail: format!("{} pairs with a repeated key (variant {vi}) accepted: length {}", items.len(), q.len()) }),
                    Ok(Err(e)) => acc.violate(Violation { prop: "C11", kind: "try_from_iter-refuses".into(), case, detail: format!("{} distinct valid pairs refused: {e}", items.len()) }),
                }
                acc.nontrivial += 1;
            }
        }
    });
    let n = a.evals;
    acc.merge(a);
    json!({"engine": "C-size-ladder", "model": "quals-bulk", "sizes": sizes, "constructions": n})
}

pub fn replay_bulk(case: &Value) -> Option<Vec<Violation>> {
    let mut acc = Acc::new();
    bulk_sizes(Tier::Thorough, &mut acc);
    Some(acc.violations.into_iter().filter(|v| v.case == *case).collect())
}
