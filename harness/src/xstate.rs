//! Engine C — explicit-state breadth-first search over API histories. Transitions call the real
//! methods on a clone of the real object next to a boring reference model; the oracle runs on every
//! transition; states are deduplicated on a canonical key (reference content + real content);
//! parent pointers give shortest counter-example histories.

use std::collections::HashMap;
use std::sync::Mutex;

use serde_json::{json, Value};

use crate::common::*;

pub trait Model: Sync {
    type State: Clone + Send + Sync;
    type Action: Clone + Send + Sync;
    fn name(&self) -> &'static str;
    /// initial states with a JSON label each (labels are used by replays)
    fn inits(&self, acc: &mut Acc) -> Vec<(Value, Self::State)>;
    fn actions(&self) -> &[Self::Action];
    fn action_json(&self, a: &Self::Action) -> Value;
    fn action_from_json(&self, v: &Value) -> Option<Self::Action> {
        self.actions().iter().find(|a| &self.action_json(a) == v).cloned()
    }
    /// apply one action to a clone of the state; check the transition oracle
    fn step(&self, s: &Self::State, a: &Self::Action, trace: &dyn Fn() -> Value, acc: &mut Acc) -> Self::State;
    /// oracle on a state (run on the target of every transition and on every initial state)
    fn check_state(&self, s: &Self::State, trace: &dyn Fn() -> Value, acc: &mut Acc);
    /// expensive part of the state oracle, run once per distinct key (sound when its verdict is a
    /// function of what the key records)
    fn check_new_state(&self, _s: &Self::State, _trace: &dyn Fn() -> Value, _acc: &mut Acc) {}
    /// canonical key
    fn key(&self, s: &Self::State) -> String;
    /// two histories reached the same key: the real objects must be indistinguishable
    fn same_object(&self, _a: &Self::State, _b: &Self::State) -> Option<String> {
        None
    }
}

struct Node<S> {
    state: S,
    parent: Option<(usize, usize)>,
    init: usize,
    depth: usize,
}

pub struct BfsResult<S> {
    pub reached: Vec<S>,
    pub states: u64,
    pub transitions: u64,
    pub max_depth: usize,
    pub fixpoint: bool,
    pub inits: usize,
    pub per_depth: Vec<u64>,
    pub acc: Acc,
}

fn path_of<M: Model>(m: &M, nodes: &[Node<M::State>], labels: &[Value], mut idx: usize, last: Option<&M::Action>) -> Value {
    let mut acts: Vec<Value> = Vec::new();
    if let Some(a) = last {
        acts.push(m.action_json(a));
    }
    let init = nodes[idx].init;
    while let Some((p, ai)) = nodes[idx].parent {
        acts.push(m.action_json(&m.actions()[ai]));
        idx = p;
    }
    acts.reverse();
    json!({"engine": m.name(), "init": labels[init], "actions": acts})
}

/// Breadth-first search to `max_depth` (None = to the fixpoint of reachable keys).
pub fn bfs<M: Model>(m: &M, max_depth: Option<usize>, max_states: usize) -> BfsResult<M::State> {
    let store_last_level_not = max_depth.is_some();
    let mut acc = Acc::new();
    let inits = m.inits(&mut acc);
    let labels: Vec<Value> = inits.iter().map(|(l, _)| l.clone()).collect();
    let mut nodes: Vec<Node<M::State>> = Vec::new();
    let mut index: HashMap<String, usize> = HashMap::new();
    let mut frontier: Vec<usize> = Vec::new();
    for (i, (label, st)) in inits.into_iter().enumerate() {
        let tr = || json!({"engine": m.name(), "init": label, "actions": []});
        if let Err(msg) = guarded(|| m.check_state(&st, &tr, &mut acc)) {
            acc.count("panics");
            acc.violate(Violation { prop: "C06", kind: "panic".into(), case: tr(), detail: format!("undocumented panic while observing an initial state: {msg}") });
            continue;
        }
        let k = m.key(&st);
        if let Some(&j) = index.get(&k) {
            if let Some(why) = m.same_object(&nodes[j].state, &st) {
                acc.violate(Violation { prop: prop_of(m.name()), kind: "same-content-objects-differ".into(), case: tr(), detail: why });
            }
            continue;
        }
        if let Err(msg) = guarded(|| m.check_new_state(&st, &tr, &mut acc)) {
            acc.violate(Violation { prop: "C06", kind: "panic".into(), case: tr(), detail: format!("undocumented panic while observing an initial state: {msg}") });
        }
        index.insert(k, nodes.len());
        frontier.push(nodes.len());
        nodes.push(Node { state: st, parent: None, init: i, depth: 0 });
    }
    let n_inits = labels.len();
    let mut transitions = 0u64;
    let mut depth = 0usize;
    let mut per_depth = vec![frontier.len() as u64];
    let mut fixpoint = false;
    let mut capped = false;
    let mut aborted = false;
    while !frontier.is_empty() {
        if aborted {
            break;
        }
        if let Some(d) = max_depth {
            if depth >= d {
                break;
            }
        }
        let mut next_frontier: Vec<usize> = Vec::new();
        // the deepest level is explored (every transition and target state checked) but not stored
        let last = store_last_level_not && max_depth == Some(depth + 1);
        // batches bound the memory held by candidate states
        for batch in frontier.chunks(4096) {
            let cands: Mutex<Vec<(usize, usize, String, M::State)>> = Mutex::new(Vec::new());
            let nodes_ref = &nodes;
            let index_ref = &index;
            let labels_ref = &labels;
            let a = par_items(batch.len(), threads(), |bi, acc| {
                let idx = batch[bi];
                let mut local: Vec<(usize, usize, String, M::State)> = Vec::new();
                for (ai, act) in m.actions().iter().enumerate() {
                    acc.evals += 1;
                    let tr = || path_of(m, nodes_ref, labels_ref, idx, Some(act));
                    let st = match guarded(|| m.step(&nodes_ref[idx].state, act, &tr, acc)) {
                        Ok(st) => st,
                        Err(msg) => {
                            acc.count("panics");
                            acc.violate(Violation { prop: "C06", kind: "panic".into(), case: tr(), detail: format!("undocumented panic in an API call sequence: {msg}") });
                            continue;
                        },
                    };
                    if let Err(msg) = guarded(|| m.check_state(&st, &tr, acc)) {
                        acc.count("panics");
                        acc.violate(Violation { prop: "C06", kind: "panic".into(), case: tr(), detail: format!("undocumented panic while observing a state: {msg}") });
                        continue;
                    }
                    let k = m.key(&st);
                    if let Some(&j) = index_ref.get(&k) {
                        if let Some(why) = m.same_object(&nodes_ref[j].state, &st) {
                            acc.violate(Violation { prop: prop_of(m.name()), kind: "same-content-objects-differ".into(), case: tr(), detail: why });
                        }
                        acc.count("transitions_into_known_states");
                    } else if last {
                        if let Err(msg) = guarded(|| m.check_new_state(&st, &tr, acc)) {
                            acc.violate(Violation { prop: "C06", kind: "panic".into(), case: tr(), detail: format!("undocumented panic while observing a state: {msg}") });
                        }
                        acc.count("deepest_level_targets_checked_not_stored");
                    } else {
                        local.push((idx, ai, k, st));
                    }
                }
                cands.lock().unwrap().extend(local);
            });
            transitions += a.evals;
            acc.merge(a);
            // a broken implementation makes real and reference contents diverge and the state space
            // explode; a few hundred counter-examples are enough, stop exploring (not exhaustive then)
            if acc.violation_count >= 300 {
                capped = true;
                aborted = true;
                break;
            }
            let mut cands = cands.into_inner().unwrap();
            cands.sort_by(|x, y| (x.0, x.1).cmp(&(y.0, y.1)));
            for (idx, ai, k, st) in cands {
                if let Some(&j) = index.get(&k) {
                    if let Some(why) = m.same_object(&nodes[j].state, &st) {
                        let case = path_of(m, &nodes, &labels, idx, Some(&m.actions()[ai]));
                        acc.violate(Violation { prop: prop_of(m.name()), kind: "same-content-objects-differ".into(), case, detail: why });
                    }
                    continue;
                }
                if nodes.len() >= max_states {
                    capped = true;
                    continue;
                }
                {
                    let tr = || path_of(m, &nodes, &labels, idx, Some(&m.actions()[ai]));
                    if let Err(msg) = guarded(|| m.check_new_state(&st, &tr, &mut acc)) {
                        acc.violate(Violation { prop: "C06", kind: "panic".into(), case: tr(), detail: format!("undocumented panic while observing a state: {msg}") });
                    }
                }
                index.insert(k, nodes.len());
                next_frontier.push(nodes.len());
                let init = nodes[idx].init;
                nodes.push(Node { state: st, parent: Some((idx, ai)), init, depth: depth + 1 });
            }
        }
        depth += 1;
        if next_frontier.is_empty() {
            fixpoint = !capped;
        } else {
            per_depth.push(next_frontier.len() as u64);
        }
        frontier = next_frontier;
    }
    // a few sample histories
    for i in [nodes.len() / 2, nodes.len().saturating_sub(1)] {
        if i < nodes.len() {
            let v = path_of(m, &nodes, &labels, i, None);
            acc.samples.push(v);
        }
    }
    if capped {
        acc.count("state_cap_hit");
    }
    if aborted {
        acc.count("search_stopped_after_300_violations");
    }
    let max_depth_seen = nodes.iter().map(|n| n.depth).max().unwrap_or(0);
    acc.evals = transitions;
    let n_states = nodes.len() as u64;
    BfsResult { reached: nodes.into_iter().map(|n| n.state).collect(), states: n_states, transitions, max_depth: max_depth_seen, fixpoint, inits: n_inits, per_depth, acc }
}

/// Re-execute a recorded history (init label + action list) with the oracles on.
pub fn replay<M: Model>(m: &M, case: &Value) -> Option<Vec<Violation>> {
    let mut acc = Acc::new();
    // (violations found while the initial states are being produced - e.g. by the construction of a
    // collection from pairs - carry the label of that initial state and no actions)
    let mut ia = Acc::new();
    let inits = m.inits(&mut ia);
    if case["actions"].as_array().map(|a| a.is_empty()).unwrap_or(false) {
        let own: Vec<Violation> = ia.violations.into_iter().filter(|v| v.case["init"] == case["init"]).collect();
        if !own.is_empty() {
            return Some(own);
        }
    }
    let (label, mut st) = inits.into_iter().find(|(l, _)| l == &case["init"])?;
    let mut done: Vec<Value> = Vec::new();
    {
        let tr = || json!({"engine": m.name(), "init": label, "actions": []});
        if let Err(msg) = guarded(|| {
            m.check_state(&st, &tr, &mut acc);
            m.check_new_state(&st, &tr, &mut acc);
        }) {
            acc.violate(Violation { prop: "C06", kind: "panic".into(), case: tr(), detail: format!("undocumented panic while observing an initial state: {msg}") });
            return Some(acc.violations);
        }
    }
    for av in case["actions"].as_array()? {
        let a = m.action_from_json(av)?;
        done.push(av.clone());
        let tr = || json!({"engine": m.name(), "init": label, "actions": done});
        match guarded(|| {
            let n = m.step(&st, &a, &tr, &mut acc);
            m.check_state(&n, &tr, &mut acc);
            m.check_new_state(&n, &tr, &mut acc);
            n
        }) {
            Ok(n) => st = n,
            Err(msg) => {
                acc.violate(Violation { prop: "C06", kind: "panic".into(), case: tr(), detail: format!("undocumented panic in an API call sequence: {msg}") });
                break;
            },
        }
    }
    Some(acc.violations)
}

/// Which property a model's structural violations (same content, different objects) belong to.
fn prop_of(model: &str) -> &'static str {
    match model {
        "quals-bfs" | "quals-typed-bfs" | "quals-typed-others-bfs" => "C11",
        "builder-bfs" | "builder-typed-bfs" => "C09",
        "checksum-bfs" => "C12",
        _ => "C06",
    }
}
