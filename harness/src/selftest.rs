//! Self-tests of the harness itself: the reference model against the upstream conformance corpus,
//! the reference UTF-8 recogniser against std on all short byte strings, unique decodability of
//! every alphabet. Run by `./check selftest` and at the start of MANIFEST.setup_cmd.

use serde_json::Value;

use crate::common::*;
use crate::lens;
use crate::refmodel::{self as R, Mode};

const BLACKLIST: &[&str] = &[
    "nuget names are case sensitive",
    "bitbucket namespace and name should be lowercased",
    "composer names are not case sensitive",
    "github namespace and name should be lowercased",
    "Hugging Face model with various cases",
    "MLflow model tracked in Azure Databricks (case insensitive)",
];

pub fn corpus_records() -> Vec<Value> {
    let mut out = Vec::new();
    for f in ["test-suite-data.json", "phylum-test-suite-data.json"] {
        let path = format!("/repo/xtask/src/generate_tests/{f}");
        if let Ok(text) = std::fs::read_to_string(&path) {
            if let Ok(Value::Array(a)) = serde_json::from_str::<Value>(&text) {
                out.extend(a);
            }
        }
    }
    out
}

pub fn run() -> i32 {
    let mut failures = 0;
    // 1. alphabets
    for l in lens::all_lenses() {
        if !l.uniquely_decodable() {
            println!("selftest: alphabet of {} is NOT uniquely decodable", l.name);
            failures += 1;
        }
    }
    let bad = lens::Lens { name: "bad", prefixes: vec![""], alphabet: vec!["0", "00"], suffixes: vec![""], n_quick: 1, n_thorough: 1 };
    if bad.uniquely_decodable() {
        println!("selftest: Sardinas-Patterson test accepts {{0,00}}");
        failures += 1;
    }
    let bad2 = lens::Lens { name: "bad2", prefixes: vec![""], alphabet: vec!["a", "ab", "ba"], suffixes: vec![""], n_quick: 1, n_thorough: 1 };
    if bad2.uniquely_decodable() {
        println!("selftest: Sardinas-Patterson test accepts {{a,ab,ba}}");
        failures += 1;
    }
    // 2. UTF-8 recogniser vs std: all byte strings up to length 3 over a boundary alphabet, all single and double bytes
    let alphabet: Vec<u8> = vec![0x00, 0x41, 0x7F, 0x80, 0x8F, 0x90, 0x9F, 0xA0, 0xBF, 0xC0, 0xC1, 0xC2, 0xDF, 0xE0, 0xE1, 0xEC, 0xED, 0xEE, 0xEF, 0xF0, 0xF1, 0xF3, 0xF4, 0xF5, 0xFF];
    let mut n = 0u64;
    let mut stack: Vec<Vec<u8>> = vec![vec![]];
    while let Some(cur) = stack.pop() {
        n += 1;
        if R::utf8_well_formed(&cur) != std::str::from_utf8(&cur).is_ok() {
            println!("selftest: UTF-8 recogniser disagrees with std on {:02X?}", cur);
            failures += 1;
        }
        if cur.len() < 4 {
            for b in &alphabet {
                let mut nx = cur.clone();
                nx.push(*b);
                stack.push(nx);
            }
        }
    }
    for a in 0..=255u8 {
        for b in 0..=255u8 {
            n += 1;
            if R::utf8_well_formed(&[a, b]) != std::str::from_utf8(&[a, b]).is_ok() {
                println!("selftest: UTF-8 recogniser disagrees with std on {:02X?}", [a, b]);
                failures += 1;
            }
        }
    }
    println!("selftest: UTF-8 recogniser agrees with std on {n} byte strings");
    // 3. reference parser vs the upstream corpus
    let recs = corpus_records();
    let mut judged = 0;
    for rec in &recs {
        let desc = rec["description"].as_str().unwrap_or("");
        if BLACKLIST.contains(&desc) {
            continue;
        }
        let purl = rec["purl"].as_str().unwrap_or("");
        let invalid = rec["is_invalid"].as_bool().unwrap_or(false);
        let ty = rec["type"].as_str().unwrap_or("");
        let typed = R::KNOWN_TYPES.contains(&ty.to_ascii_lowercase().as_str());
        let r = R::rparse(purl, if typed || invalid { Mode::Typed } else { Mode::Generic });
        if r.unjudged != 0 {
            continue;
        }
        judged += 1;
        if invalid {
            if r.defects == 0 {
                println!("selftest: reference accepts invalid corpus record {:?} ({desc})", purl);
                failures += 1;
            }
            continue;
        }
        if r.defects != 0 {
            println!("selftest: reference refuses valid corpus record {:?} ({desc}): {:?}", purl, r.classes());
            failures += 1;
            continue;
        }
        let o = r.tuple.unwrap().to_obs();
        let want_q: Vec<(String, String)> = {
            let mut v: Vec<(String, String)> = rec["qualifiers"].as_object().map(|m| m.iter().map(|(k, v)| (k.clone(), v.as_str().unwrap_or("").to_owned())).collect()).unwrap_or_default();
            v.sort();
            v
        };
        let opt = |k: &str| rec[k].as_str().map(str::to_owned);
        if Some(o.ty.clone()) != opt("type") || o.ns != opt("namespace") || Some(o.name.clone()) != opt("name") || o.version != opt("version") || o.subpath != opt("subpath") || o.quals != want_q {
            println!("selftest: reference components differ from corpus for {:?} ({desc}): {:?}", purl, o);
            failures += 1;
        }
        if let Some(c) = rec["canonical_purl"].as_str() {
            if R::render(&o) != c {
                println!("selftest: reference renderer gives {:?}, corpus {:?} ({desc})", R::render(&o), c);
                failures += 1;
            }
        }
    }
    println!("selftest: reference model agrees with {judged} judged corpus records (of {})", recs.len());
    if judged < 40 && !recs.is_empty() {
        println!("selftest: too few corpus records judged");
        failures += 1;
    }
    // 4. lenient decoder
    for (i, o) in [("%41", "A"), ("%4", "%4"), ("%", "%"), ("%zz", "%zz"), ("a%2fb", "a/b"), ("%%41", "%A"), ("100%", "100%")] {
        if R::pct_decode(i).as_deref() != Some(o) {
            println!("selftest: decoder: {:?} -> {:?}, expected {:?}", i, R::pct_decode(i), o);
            failures += 1;
        }
    }
    let _ = h64(&0u8);
    if failures == 0 {
        println!("selftest: ok");
        0
    } else {
        println!("MACHINERY: selftest failed ({failures})");
        2
    }
}
