//! Engine B drivers: spelling mode (C02 and input source for other properties) and fault mode (C05).

use std::collections::HashSet;

use serde_json::{json, Value};

use crate::common::*;
use crate::monitors::*;
use crate::spell::*;

pub fn case_spell(t: &SpecTuple, choices: &[(u16, u16)], fault: Option<FaultSel>) -> Value {
    json!({"engine": "spell", "tuple": t.to_json(), "choices": choices.iter().map(|c| c.0).collect::<Vec<u16>>(),
           "fault": fault.map(|f| json!({"site": f.site, "alt": f.alt}))})
}

fn check_flavor<T: PFlavor>(prop: &'static str, t: &SpecTuple, text: &str, canon: &mut Option<String>, case: &dyn Fn() -> Value, acc: &mut Acc) {
    acc.calls += 2;
    match T::parse(text) {
        Err(e) => acc.violate(Violation { prop, kind: "legal-spelling-refused".into(), case: case(), detail: format!("{} refuses {:?} with {:?}", T::NAME, text, T::err_text(&e)) }),
        Ok(p) => {
            let want = t.expected(T::TYPED).to_obs();
            let got = observe(&p);
            if got != want {
                let note = if format!("{:?}", want).chars().any(|c| !c.is_ascii() && !c.is_uppercase() && !c.to_lowercase().eq([c])) { " [titlecase]" } else { "" };
                acc.violate(Violation { prop, kind: "spelling-components".into(), case: case(), detail: format!("{}: {:?} parsed as {:?}, the tuple is {:?}{}", T::NAME, text, got, want, note) });
            }
            let s = p.to_string();
            match canon {
                None => *canon = Some(s),
                Some(c) => {
                    if *c != s {
                        acc.violate(Violation { prop, kind: "spellings-disagree".into(), case: case(), detail: format!("{}: {:?} formats as {:?}, the canonical spelling as {:?}", T::NAME, text, s, c) });
                    }
                },
            }
        },
    }
}

/// Evaluate one fault-free spelling of `t`.
pub fn eval_spelling(prop: &'static str, se: &StringEval, t: &SpecTuple, text: &str, canon: &mut [Option<String>; 3], case: &dyn Fn() -> Value, acc: &mut Acc) {
    acc.evals += 1;
    if prop == "C02" {
        let r = guarded(|| {
            check_flavor::<String>(prop, t, text, &mut canon[0], case, acc);
            #[cfg(feature = "smart")]
            check_flavor::<purl::SmallString>(prop, t, text, &mut canon[1], case, acc);
            #[cfg(feature = "typed")]
            if t.typed {
                check_flavor::<purl::PackageType>(prop, t, text, &mut canon[2], case, acc);
            }
        });
        if let Err(m) = r {
            acc.violate(Violation { prop: "C06", kind: "panic".into(), case: case(), detail: m });
        }
        acc.accepted += 1;
    } else {
        // other properties use the spellings as an input stream for their own monitors
        let before = acc.evals;
        se.eval(text, acc);
        acc.evals = before;
    }
}

fn expect_refusal<T: PFlavor>(text: &str, class: ErrClass, kind: &str, case: &dyn Fn() -> Value, acc: &mut Acc) {
    acc.calls += 1;
    match T::parse(text) {
        Ok(p) => acc.violate(Violation { prop: "C05", kind: "fault-accepted".into(), case: case(), detail: format!("{} accepts {:?} (fault: {kind}) as {:?}", T::NAME, text, observe(&p)) }),
        Err(e) => {
            let c = T::classify(&e);
            acc.sig(&(T::NAME, c));
            if c != class {
                acc.violate(Violation { prop: "C05", kind: "fault-wrong-error".into(), case: case(), detail: format!("{} refuses {:?} (fault: {kind}) with {:?}, expected {}", T::NAME, text, T::err_text(&e), class.name()) });
            }
        },
    }
}

pub fn eval_fault(t: &SpecTuple, text: &str, info: &FaultInfo, case: &dyn Fn() -> Value, acc: &mut Acc) {
    acc.evals += 1;
    acc.rejected += 1;
    acc.count(info.kind);
    let typed_only = matches!(info.kind, "unknown-type" | "maven-namespace-removed");
    let r = guarded(|| {
        if !typed_only {
            expect_refusal::<String>(text, info.class, info.kind, case, acc);
        } else {
            // the type-agnostic PURL accepts these
            acc.calls += 1;
            if let Err(e) = <String as PFlavor>::parse(text) {
                acc.violate(Violation { prop: "C05", kind: "typed-only-fault-refused-by-generic".into(), case: case(), detail: format!("type-agnostic parser refuses {:?}: {e}", text) });
            }
        }
        #[cfg(feature = "typed")]
        if t.typed {
            expect_refusal::<purl::PackageType>(text, info.class, info.kind, case, acc);
        }
    });
    let _ = t;
    if let Err(m) = r {
        acc.violate(Violation { prop: "C06", kind: "panic".into(), case: case(), detail: m });
    }
}

pub struct BPlan {
    /// (stride, offset, deviations): tuples with index % stride == offset are explored with this bound
    pub tiers: Vec<(usize, usize)>,
    pub full_universe: bool,
}

/// Spelling mode over the tuple universe.
pub fn spelling_stage(prop: &'static str, mon: u32, tier: Tier) -> (Acc, Value) {
    let (full, d_all, d_core, core_stride) = match tier {
        Tier::Quick => (false, 2usize, 3usize, 8usize),
        Tier::Thorough => (true, 2, 3, 48),
    };
    let mut tuples = tuple_universe(full);
    // quick tier, second pass: the FULL product of the field domains (every combination of components,
    // 29 952 tuples) with at most one deviation from the canonical spelling
    let first_pass = tuples.len();
    if tier == Tier::Quick {
        tuples.extend(tuple_universe(true));
    }
    let se = StringEval { prop, mon };
    let acc = par_items(tuples.len(), threads(), |i, acc| {
        let t = &tuples[i];
        let d = if i >= first_pass { 1 } else if i % core_stride == 0 { d_core } else { d_all };
        let mut seen: HashSet<u64> = HashSet::new();
        let mut canon: [Option<String>; 3] = [None, None, None];
        let mut local = Acc::new();
        let mut max_sites = 0usize;
        explore_spellings(t, d, None, &mut |text, taken, _| {
            max_sites = max_sites.max(taken.len());
            let case = || case_spell(t, taken, None);
            eval_spelling(prop, &se, t, text, &mut canon, &case, &mut local);
            if seen.insert(h64(text)) {
                local.nontrivial += 1;
            }
            local.sig(&(taken.iter().filter(|c| c.0 != 0).count(), text.len().min(40) / 8));
            if i % 97 == 3 && taken.iter().filter(|c| c.0 != 0).count() == d.min(2) {
                local.sample(|| json!(text));
            }
        });
        local.add(if i >= first_pass { "tuples_of_the_full_product_at_one_deviation" } else if d == d_core { "tuples_at_core_bound" } else { "tuples_at_base_bound" }, 1);
        local.add("spelling_sites_of_canonical_spellings_total", max_sites as u64);
        acc.merge(local);
    });
    let rep = json!({"engine": "B-spellings", "tuples": first_pass, "full_product_tuples_at_one_deviation": tuples.len() - first_pass, "full_tuple_product": full, "max_deviations_all_tuples": d_all, "max_deviations_core_tuples": d_core,
                     "core_stride": core_stride, "spellings": acc.evals, "distinct_strings_per_tuple_summed": acc.nontrivial});
    (acc, rep)
}

/// Fault mode: every fault of the menu at every site of every spelling with at most d-1 deviations.
pub fn fault_stage(tier: Tier) -> (Acc, Value) {
    let (full, d_all, d_core, core_stride) = match tier {
        Tier::Quick => (false, 0usize, 1usize, 8usize),
        Tier::Thorough => (true, 0, 1, 6),
    };
    let mut tuples = tuple_universe(full);
    // quick tier, second pass: every fault on the canonical spelling of every tuple of the full product
    let first_pass = tuples.len();
    if tier == Tier::Quick {
        tuples.extend(tuple_universe(true));
    }
    let acc = par_items(tuples.len(), threads(), |i, acc| {
        let t = &tuples[i];
        let d = if i >= first_pass { 0 } else if i % core_stride == 0 { d_core } else { d_all };
        let mut local = Acc::new();
        let mut seen: HashSet<u64> = HashSet::new();
        explore_spellings(t, d, None, &mut |_text, taken, _| {
            let choices: Vec<u16> = taken.iter().map(|c| c.0).collect();
            // the fault menu of this very spelling
            let menu = {
                let mut ch = Chooser::new(&choices);
                let mut sp = Speller::new(&mut ch, None);
                let _ = sp.spell(t);
                sp.menu.clone()
            };
            for (site, n) in menu.iter().enumerate() {
                for alt in 1..=*n {
                    let sel = FaultSel { site, alt };
                    let (text, info) = respell(t, &choices, Some(sel));
                    match info {
                        None => local.count("fault_site_not_applicable"),
                        Some(info) => {
                            let case = || case_spell(t, taken, Some(sel));
                            eval_fault(t, &text, &info, &case, &mut local);
                            if seen.insert(h64(&text)) {
                                local.nontrivial += 1;
                            }
                            if i % 131 == 5 && alt == 1 && site % 7 == 0 {
                                local.sample(|| json!({"fault": info.kind, "input": text}));
                            }
                        },
                    }
                }
            }
        });
        acc.merge(local);
    });
    let rep = json!({"engine": "B-faults", "tuples": first_pass, "full_product_tuples_canonical_spelling": tuples.len() - first_pass, "full_tuple_product": full, "spelling_deviations_all_tuples": d_all, "spelling_deviations_core_tuples": d_core,
                     "core_stride": core_stride, "faulted_strings": acc.evals, "distinct_faulted_strings_per_tuple_summed": acc.nontrivial});
    (acc, rep)
}

pub fn replay(prop: &'static str, mon: u32, case: &Value) -> Option<Vec<Violation>> {
    let t = SpecTuple::from_json(&case["tuple"])?;
    let choices: Vec<u16> = case["choices"].as_array()?.iter().map(|c| c.as_u64().unwrap_or(0) as u16).collect();
    let fault = if case["fault"].is_null() { None } else { Some(FaultSel { site: case["fault"]["site"].as_u64()? as usize, alt: case["fault"]["alt"].as_u64()? as usize }) };
    let mut acc = Acc::new();
    let (text, info) = respell(&t, &choices, fault);
    let taken: Vec<(u16, u16)> = choices.iter().map(|c| (*c, 0)).collect();
    let case_fn = || case.clone();
    match (fault, info) {
        (Some(_), Some(info)) => eval_fault(&t, &text, &info, &case_fn, &mut acc),
        (Some(_), None) => {},
        (None, _) => {
            // the canonical spelling first, so that "spellings disagree" is reproducible
            let mut canon: [Option<String>; 3] = [None, None, None];
            let se = StringEval { prop, mon };
            let (ctext, _) = respell(&t, &[], None);
            eval_spelling(prop, &se, &t, &ctext, &mut canon, &case_fn, &mut acc);
            acc.violations.clear();
            eval_spelling(prop, &se, &t, &text, &mut canon, &case_fn, &mut acc);
        },
    }
    let _ = taken;
    Some(acc.violations)
}
