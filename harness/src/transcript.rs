//! C17 — one deterministic input stream, run by the same harness source built once per feature
//! set; per-chunk transcript digests are compared across the builds.

use std::collections::BTreeMap;
use std::fmt::Write as _;
use std::process::Command;

use purl::{GenericPurl, GenericPurlBuilder};
use serde_json::{json, Value};

use crate::common::*;
use crate::lens;
use crate::m_builder::{CVALUES, QVALUES, UNIVERSE};
use crate::spell;

fn outcome_line<T: Flavor>(r: Result<GenericPurl<T>, T::Error>) -> String {
    match r {
        Err(e) => format!("ERR {}", T::err_text(&e)),
        Ok(p) => {
            let o = observe(&p);
            // (Display under formatter flags is observable behaviour too)
            format!("OK {}|{:?}|{}|{:?}|{:?}|{:?}|{}|{:>24}|{:.9}|{:*^21}", o.ty, o.ns, o.name, o.version, o.quals, o.subpath, p.to_string(), p, p, p)
        },
    }
}

fn generic_parse_line(s: &str) -> String {
    match guarded(|| outcome_line::<String>(<String as PFlavor>::parse(s))) {
        Ok(l) => l,
        Err(m) => format!("PANIC {m}"),
    }
}

#[cfg(feature = "typed")]
fn typed_parse_line(s: &str) -> Option<String> {
    Some(match guarded(|| outcome_line::<purl::PackageType>(<purl::PackageType as PFlavor>::parse(s))) {
        Ok(l) => l,
        Err(m) => format!("PANIC {m}"),
    })
}
#[cfg(not(feature = "typed"))]
fn typed_parse_line(_s: &str) -> Option<String> {
    None
}

fn generic_build_line(ty: &str, f: [&str; 4], qs: &[(&str, &str)]) -> String {
    match guarded(|| {
        let mut b = GenericPurlBuilder::new(ty.to_owned(), f[1]).with_namespace(f[0]).with_version(f[2]).with_subpath(f[3]);
        for (k, v) in qs {
            b = match b.with_qualifier(*k, *v) {
                Ok(b) => b,
                Err(e) => return format!("KEYERR {e}"),
            };
        }
        outcome_line::<String>(b.build())
    }) {
        Ok(l) => l,
        Err(m) => format!("PANIC {m}"),
    }
}

/// the same build through Cow::Borrowed and Cow::Owned (the generic API exists in every build)
fn cow_build_line(ty: &str, f: [&str; 4], qs: &[(&str, &str)], borrowed: bool) -> String {
    use std::borrow::Cow;
    match guarded(|| {
        let pt: Cow<'static, str> = if borrowed { Cow::Borrowed(crate::builders::intern(ty)) } else { Cow::Owned(ty.to_owned()) };
        let mut b = GenericPurlBuilder::new(pt, f[1]).with_namespace(f[0]).with_version(f[2]).with_subpath(f[3]);
        for (k, v) in qs {
            b = match b.with_qualifier(*k, *v) {
                Ok(b) => b,
                Err(e) => return format!("KEYERR {e}"),
            };
        }
        outcome_line::<Cow<'static, str>>(b.build())
    }) {
        Ok(l) => l,
        Err(m) => format!("PANIC {m}"),
    }
}

#[cfg(feature = "typed")]
fn typed_build_line(ty: &str, f: [&str; 4], qs: &[(&str, &str)]) -> Option<String> {
    let pt = <purl::PackageType as Flavor>::mk(ty)?;
    Some(match guarded(|| {
        let mut b = GenericPurlBuilder::new(pt, f[1]).with_namespace(f[0]).with_version(f[2]).with_subpath(f[3]);
        for (k, v) in qs {
            b = match b.with_qualifier(*k, *v) {
                Ok(b) => b,
                Err(e) => return format!("KEYERR {e}"),
            };
        }
        outcome_line::<purl::PackageType>(b.build())
    }) {
        Ok(l) => l,
        Err(m) => format!("PANIC {m}"),
    })
}
#[cfg(not(feature = "typed"))]
fn typed_build_line(_ty: &str, _f: [&str; 4], _qs: &[(&str, &str)]) -> Option<String> {
    None
}

const SCALAR_CHUNK: usize = 8192;
const LADDER_CHUNK: usize = 2048;

#[derive(Default)]
struct ChunkOut {
    count: u64,
    g: u64,
    t: u64,
    has_t: bool,
    lines: Vec<String>,
}

impl ChunkOut {
    fn push(&mut self, input: &str, g: String, t: Option<String>, verbose: bool) {
        self.count += 1;
        self.g = h64(&(self.g, input, &g));
        if let Some(t) = &t {
            self.has_t = true;
            self.t = h64(&(self.t, input, t));
        }
        if verbose {
            self.lines.push(format!("{}\t{}\t{}", input.escape_debug(), g.escape_debug(), t.map(|x| x.escape_debug().to_string()).unwrap_or_else(|| "-".into())));
        }
    }
}

/// The chunks of the stream, identified by a stable id.
fn chunk_ids(tier: Tier) -> Vec<String> {
    let mut ids = Vec::new();
    for l in stream_lenses(tier) {
        for (pi, _) in l.0.prefixes.iter().enumerate() {
            for (si, _) in l.0.suffixes.iter().enumerate() {
                for ti in 0..=l.0.alphabet.len() {
                    ids.push(format!("lens:{}:{}:{}:{}", l.0.name, pi, si, ti));
                }
            }
        }
    }
    let tuples = spell::tuple_universe(false);
    for i in 0..tuples.len() {
        ids.push(format!("spell:{i}"));
    }
    for i in 0..UNIVERSE.len() {
        ids.push(format!("build:{i}"));
    }
    for i in 0..(crate::sweeps::N_SCALARS as usize).div_ceil(SCALAR_CHUNK) {
        ids.push(format!("scalar:{i}"));
    }
    for i in 0..lens::ladder(tier).len().div_ceil(LADDER_CHUNK) {
        ids.push(format!("ladder:{i}"));
    }
    ids
}

fn stream_lenses(tier: Tier) -> Vec<(lens::Lens, usize)> {
    lens::all_lenses().into_iter().map(|l| {
        let n = l.bound(tier).saturating_sub(1);
        (l, n)
    }).collect()
}

fn run_chunk(id: &str, tier: Tier, verbose: bool) -> ChunkOut {
    let mut out = ChunkOut::default();
    let parts: Vec<&str> = id.split(':').collect();
    match parts[0] {
        "lens" => {
            let (l, n) = stream_lenses(tier).into_iter().find(|(l, _)| l.name == parts[1]).expect("lens");
            let prefix = l.prefixes[parts[2].parse::<usize>().unwrap()];
            let suffix = l.suffixes[parts[3].parse::<usize>().unwrap()];
            let ti: usize = parts[4].parse().unwrap();
            fn rec(l: &lens::Lens, buf: &mut String, d: usize, n: usize, suffix: &str, out: &mut ChunkOut, verbose: bool) {
                let len = buf.len();
                buf.push_str(suffix);
                let g = generic_parse_line(buf);
                let t = typed_parse_line(buf);
                let input = buf.clone();
                out.push(&input, g, t, verbose);
                buf.truncate(len);
                if d == n {
                    return;
                }
                for t in &l.alphabet {
                    buf.push_str(t);
                    rec(l, buf, d + 1, n, suffix, out, verbose);
                    buf.truncate(len);
                }
            }
            let mut buf = String::from(prefix);
            if ti == l.alphabet.len() {
                // the root node only
                rec(&l, &mut buf, 0, 0, suffix, &mut out, verbose);
            } else if n >= 1 {
                buf.push_str(l.alphabet[ti]);
                rec(&l, &mut buf, 1, n, suffix, &mut out, verbose);
            }
        },
        "scalar" => {
            // every scalar value c in typed and untyped names: after an ASCII upper-case letter, after a
            // lower-case letter (word-final position), alone
            let k: usize = parts[1].parse().unwrap();
            let lo = k * SCALAR_CHUNK;
            let hi = (lo + SCALAR_CHUNK).min(crate::sweeps::N_SCALARS as usize);
            // comparisons of stored qualifier keys with arbitrary strings (every scalar value inside the probe)
            let stored = purl::Qualifiers::try_from_iter([("k", "1"), ("s", "2"), ("ss", "3"), ("fi", "4"), ("vcs_url", "5"), ("i", "6")]).ok();
            for i in lo..hi {
                let c = crate::sweeps::scalar(i as u32);
                if let Some(q) = &stored {
                    for probe in [c.to_string(), format!("{c}s"), format!("vc{c}_url"), format!("f{c}")] {
                        let line = match guarded(|| q.iter().map(|(k, _)| format!("{}:{}:{:?}", k.as_str(), *k == *probe.as_str(), k.partial_cmp(probe.as_str()))).collect::<Vec<_>>().join(" ")) {
                            Ok(l) => l,
                            Err(m) => format!("PANIC {m}"),
                        };
                        out.push(&format!("key-compare|{}", probe.escape_debug()), line, None, verbose);
                    }
                }
                for name in [format!("A{c}"), format!("a{c}"), c.to_string()] {
                    for ty in ["nuget", "pypi", "t"] {
                        let f = ["", name.as_str(), "", ""];
                        let input = format!("{ty}|{}", name.escape_debug());
                        let g = generic_build_line(ty, f, &[]);
                        let t = typed_build_line(ty, f, &[]);
                        out.push(&input, g, t, verbose);
                    }
                }
            }
        },
        "ladder" => {
            let all = lens::ladder(tier);
            let k: usize = parts[1].parse().unwrap();
            for s in &all[k * LADDER_CHUNK..((k + 1) * LADDER_CHUNK).min(all.len())] {
                let g = generic_parse_line(s);
                let t = typed_parse_line(s);
                out.push(s, g, t, verbose);
            }
        },
        "spell" => {
            let tuples = spell::tuple_universe(false);
            let t = &tuples[parts[1].parse::<usize>().unwrap()];
            spell::explore_spellings(t, 1, None, &mut |text, _, _| {
                let g = generic_parse_line(text);
                let ty = typed_parse_line(text);
                out.push(text, g, ty, verbose);
            });
        },
        _ => {
            let a: usize = parts[1].parse().unwrap();
            let mut qsets: Vec<Vec<(&str, &str)>> = vec![vec![]];
            for v in QVALUES {
                qsets.push(vec![("K", v)]);
            }
            for v in CVALUES {
                qsets.push(vec![("checksum", v)]);
            }
            qsets.push(vec![("!", "v")]);
            // an empty value next to a checksum (before it, after it), a qualifier after a checksum
            qsets.push(vec![("a", ""), ("checksum", "B:FF,a:0A")]);
            qsets.push(vec![("a", ""), ("checksum", "zz")]);
            qsets.push(vec![("checksum", "a:00"), ("repository_url", "u"), ("z", "")]);
            for ty in ["t", "T.1+x-", "!", "npm", "PyPI", "maven", "NPM", "Cargo"] {
                for fi in 0..4 {
                    for fj in 0..4 {
                        if fi == fj {
                            continue;
                        }
                        for b in 0..UNIVERSE.len() {
                            let mut f = ["", "a", "", ""];
                            f[fi] = UNIVERSE[a];
                            f[fj] = UNIVERSE[b];
                            for qs in &qsets {
                                let input = format!("{ty}|{:?}|{:?}", f, qs);
                                let g = generic_build_line(ty, f, qs);
                                let t = typed_build_line(ty, f, qs);
                                out.push(&input, g, t, verbose);
                                if qs.is_empty() {
                                    out.push(&format!("cow-borrowed|{input}"), cow_build_line(ty, f, qs, true), None, verbose);
                                    out.push(&format!("cow-owned|{input}"), cow_build_line(ty, f, qs, false), None, verbose);
                                }
                            }
                        }
                    }
                }
            }
        },
    }
    out
}

/// `purl-verif transcript --out <file> [--chunk <id>]`: write the digests (or the lines of one chunk).
pub fn write_transcript(tier: Tier, out: &str, chunk: Option<&str>) -> i32 {
    let mut text = String::new();
    if let Some(id) = chunk {
        let c = std::thread::scope(|sc| sc.spawn(|| run_chunk(id, tier, true)).join().expect("chunk thread"));
        for l in c.lines {
            text.push_str(&l);
            text.push('\n');
        }
    } else {
        let ids = chunk_ids(tier);
        let results = std::sync::Mutex::new(BTreeMap::<usize, String>::new());
        par_items(ids.len(), threads(), |i, _| {
            // every chunk in a thread of its own: its digest is then a function of the chunk alone
            // (thread-local state starts fresh), the same in the full run and when the chunk is re-run
            let c = std::thread::scope(|sc| sc.spawn(|| run_chunk(&ids[i], tier, false)).join().expect("chunk thread"));
            let line = format!("{}\t{}\t{:016x}\t{}", ids[i], c.count, c.g, if c.has_t { format!("{:016x}", c.t) } else { "-".into() });
            results.lock().unwrap().insert(i, line);
        });
        for (_, l) in results.into_inner().unwrap() {
            let _ = writeln!(text, "{l}");
        }
    }
    match std::fs::write(out, text) {
        Ok(()) => 0,
        Err(e) => {
            eprintln!("MACHINERY: cannot write {out}: {e}");
            2
        },
    }
}

fn variants_from_env() -> Vec<(String, String)> {
    std::env::var("C17_BINARIES").unwrap_or_default().split(',').filter_map(|kv| kv.split_once('=').map(|(k, v)| (k.to_owned(), v.to_owned()))).collect()
}

fn tier_name(t: Tier) -> &'static str {
    match t {
        Tier::Quick => "quick",
        Tier::Thorough => "thorough",
    }
}

fn run_variant(bin: &str, tier: Tier, out: &str, chunk: Option<&str>) -> bool {
    let mut c = Command::new(bin);
    c.arg("transcript").arg("--tier").arg(tier_name(tier)).arg("--out").arg(out);
    if let Some(id) = chunk {
        c.arg("--chunk").arg(id);
    }
    c.status().map(|s| s.success()).unwrap_or(false)
}

/// first differing line of one chunk between two variants
fn localize(a: &(String, String), b: &(String, String), id: &str, tier: Tier, typed: bool) -> Option<(String, String, String)> {
    let dir = std::env::temp_dir();
    let fa = dir.join(format!("c17-{}-{}.txt", a.0, std::process::id()));
    let fb = dir.join(format!("c17-{}-{}.txt", b.0, std::process::id()));
    if !run_variant(&a.1, tier, fa.to_str()?, Some(id)) || !run_variant(&b.1, tier, fb.to_str()?, Some(id)) {
        return None;
    }
    let ta = std::fs::read_to_string(&fa).ok()?;
    let tb = std::fs::read_to_string(&fb).ok()?;
    let _ = std::fs::remove_file(&fa);
    let _ = std::fs::remove_file(&fb);
    for (la, lb) in ta.lines().zip(tb.lines()) {
        let ca: Vec<&str> = la.split('\t').collect();
        let cb: Vec<&str> = lb.split('\t').collect();
        let col = if typed { 2 } else { 1 };
        if ca.first() != cb.first() || ca.get(col) != cb.get(col) {
            return Some((ca.first().unwrap_or(&"").to_string(), ca.get(col).unwrap_or(&"").to_string(), cb.get(col).unwrap_or(&"").to_string()));
        }
    }
    None
}

/// Compare the transcripts of all variants; returns the accumulator and the stage report.
pub fn compare(tier: Tier, only_chunk: Option<&str>) -> (Acc, Value) {
    let mut acc = Acc::new();
    let variants = variants_from_env();
    if variants.len() < 2 {
        println!("MACHINERY: C17 needs C17_BINARIES=name=path,... (set by ./check)");
        std::process::exit(2);
    }
    if let Some(id) = only_chunk {
        // replay of one chunk: only that chunk is executed, in every variant
        for vi in 1..variants.len() {
            acc.evals += 1;
            for typed in [false, true] {
                if let Some((input, a, b)) = localize(&variants[0], &variants[vi], id, tier, typed) {
                    acc.violate(Violation {
                        prop: "C17",
                        kind: if typed { "typed-api-differs".into() } else { "generic-api-differs".into() },
                        case: json!({"engine": "transcript", "chunk": id, "variants": [variants[0].0, variants[vi].0]}),
                        detail: format!("first differing input {input}: {} gives {a}, {} gives {b}", variants[0].0, variants[vi].0),
                    });
                }
            }
        }
        return (acc, json!({"engine": "transcripts", "replayed_chunk": id}));
    }
    let dir = std::env::temp_dir();
    let mut localized = 0usize;
    let mut tables: Vec<BTreeMap<String, (u64, String, String)>> = Vec::new();
    let handles: Vec<_> = variants
        .iter()
        .map(|(name, bin)| {
            let out = dir.join(format!("c17-digests-{}-{}.tsv", name, std::process::id()));
            let (bin, out2) = (bin.clone(), out.clone());
            (std::thread::spawn(move || run_variant(&bin, tier, out2.to_str().unwrap(), None)), out)
        })
        .collect();
    for ((name, _), (h, out)) in variants.iter().zip(handles) {
        if !h.join().unwrap_or(false) {
            println!("MACHINERY: variant {name} failed to produce a transcript");
            std::process::exit(2);
        }
        let text = std::fs::read_to_string(&out).unwrap_or_default();
        let _ = std::fs::remove_file(&out);
        let mut m = BTreeMap::new();
        for l in text.lines() {
            let c: Vec<&str> = l.split('\t').collect();
            if c.len() == 4 {
                m.insert(c[0].to_owned(), (c[1].parse::<u64>().unwrap_or(0), c[2].to_owned(), c[3].to_owned()));
            }
        }
        tables.push(m);
    }
    let base = &tables[0];
    let mut inputs = 0u64;
    let mut chunks = 0u64;
    for (id, (count, g0, t0)) in base {
        if let Some(only) = only_chunk {
            if id != only {
                continue;
            }
        }
        chunks += 1;
        inputs += count;
        acc.sig(&(id.split(':').next().unwrap_or(""), g0.len(), &g0[..2]));
        for (vi, tab) in tables.iter().enumerate().skip(1) {
            acc.evals += count;
            let Some((c, g, t)) = tab.get(id) else {
                acc.violate(Violation { prop: "C17", kind: "chunk-missing".into(), case: json!({"engine": "transcript", "chunk": id}), detail: format!("variant {} has no chunk {id}", variants[vi].0) });
                continue;
            };
            if c != count || g != g0 {
                // (a re-run per differing chunk: only for the first few)
                localized += 1;
                let loc = if localized <= 8 { localize(&variants[0], &variants[vi], id, tier, false) } else { None };
                acc.violate(Violation {
                    prop: "C17",
                    kind: "generic-api-differs".into(),
                    case: json!({"engine": "transcript", "chunk": id, "variants": [variants[0].0, variants[vi].0]}),
                    detail: match loc {
                        Some((input, a, b)) => format!("first differing input {input}: {} gives {a}, {} gives {b}", variants[0].0, variants[vi].0),
                        None => format!("digests differ ({g0} vs {g}) but no differing line was found"),
                    },
                });
            }
            if t != "-" && t0 != "-" && t != t0 {
                localized += 1;
                let loc = if localized <= 8 { localize(&variants[0], &variants[vi], id, tier, true) } else { None };
                acc.violate(Violation {
                    prop: "C17",
                    kind: "typed-api-differs".into(),
                    case: json!({"engine": "transcript", "chunk": id, "variants": [variants[0].0, variants[vi].0]}),
                    detail: match loc {
                        Some((input, a, b)) => format!("first differing input {input}: {} gives {a}, {} gives {b}", variants[0].0, variants[vi].0),
                        None => format!("typed digests differ ({t0} vs {t})"),
                    },
                });
            }
        }
    }
    acc.evals += inputs;
    acc.nontrivial = inputs;
    acc.accepted = inputs;
    // samples: a few lines of one chunk from the first variant
    let f = dir.join(format!("c17-sample-{}.txt", std::process::id()));
    if run_variant(&variants[0].1, tier, f.to_str().unwrap(), Some("spell:7")) {
        if let Ok(t) = std::fs::read_to_string(&f) {
            for l in t.lines().take(3) {
                acc.samples.push(json!(l));
            }
        }
        let _ = std::fs::remove_file(&f);
    }
    let rep = json!({"engine": "transcripts", "variants": variants.iter().map(|v| v.0.clone()).collect::<Vec<_>>(), "chunks": chunks, "inputs_per_variant": inputs,
                     "typed_api_compared_in": tables.iter().filter(|t| t.values().any(|v| v.2 != "-")).count()});
    (acc, rep)
}
