//! Engine E — sweeps over all Unicode scalar values, all ASCII pairs and all short strings over
//! small alphabets (C03, C08, C15, C18).

use serde_json::{json, Value};

use crate::builders::*;
use crate::common::*;
use crate::monitors::*;
use crate::refmodel as R;

pub const N_SCALARS: u32 = 0x110000 - 0x800;

/// i-th Unicode scalar value (surrogates skipped)
pub fn scalar(i: u32) -> char {
    let cp = if i < 0xD800 { i } else { i + 0x800 };
    char::from_u32(cp).expect("scalar index out of range")
}

/// Split the scalar range into chunks and run `f(c, acc)` on every scalar value.
pub fn for_all_scalars(f: impl Fn(char, &mut Acc) + Sync) -> Acc {
    const CHUNK: u32 = 2048;
    let chunks = (N_SCALARS + CHUNK - 1) / CHUNK;
    par_items(chunks as usize, threads(), |i, acc| {
        let lo = i as u32 * CHUNK;
        let hi = (lo + CHUNK).min(N_SCALARS);
        for k in lo..hi {
            f(scalar(k), acc);
        }
    })
}

/// All strings over `alphabet` of length 0..=n, in parallel over the first two symbols.
pub fn for_all_short(alphabet: &[&str], n: usize, f: impl Fn(&str, &mut Acc) + Sync) -> Acc {
    let l = crate::lens::Lens { name: "short-strings", prefixes: vec![""], alphabet: alphabet.iter().map(|s| crate::builders::intern(s)).collect(), suffixes: vec![""], n_quick: n, n_thorough: n };
    crate::lens::explore(&l, n, f)
}

pub const POSITIONS: [&str; 5] = ["namespace", "name", "version", "qualifier-value", "subpath"];

fn spec_with(ty: &str, pos: usize, text: &str) -> BuildSpec {
    let mut s = BuildSpec { ty: ty.to_owned(), name: "n".to_owned(), ..Default::default() };
    if ty.eq_ignore_ascii_case("maven") {
        s.ns = "g".to_owned();
    }
    match pos {
        0 => s.ns = text.to_owned(),
        1 => s.name = text.to_owned(),
        2 => s.version = text.to_owned(),
        3 => s.quals = vec![("k".to_owned(), text.to_owned())],
        _ => s.subpath = text.to_owned(),
    }
    s
}

// ------------------------------------------------------------------------------------------------
// C03

pub fn c03_sweep(tier: Tier) -> (Acc, Value) {
    let ev = BuildEval { prop: "C03", mon: M03 };
    let flavors: Vec<(&str, &str)> = match tier {
        Tier::Quick => vec![("String", "t"), ("PackageType", "pypi")],
        Tier::Thorough => vec![
            ("String", "t"),
            ("String", "T.1+x-"),
            ("SmallString", "t"),
            ("CowBorrowed", "t"),
            ("PackageType", "cargo"),
            ("PackageType", "gem"),
            ("PackageType", "golang"),
            ("PackageType", "maven"),
            ("PackageType", "npm"),
            ("PackageType", "nuget"),
            ("PackageType", "pypi"),
        ],
    };
    let mut total = for_all_scalars(|c, acc| {
        let alone = c.to_string();
        let mid = format!("a{c}b");
        for (fl, ty) in &flavors {
            for pos in 0..5 {
                for text in [&alone, &mid] {
                    let spec = spec_with(ty, pos, text);
                    if ev.eval(fl, &spec, acc) {
                        acc.nontrivial += 1;
                    }
                }
            }
        }
        if (c as u32) % 65536 == 0x41 {
            acc.sample(|| json!({"builder": spec_with("t", 3, &mid).to_json()}));
        }
        acc.sig(&(R::must_escape(alone.as_bytes()[0], R::Comp::Name), R::must_escape(alone.as_bytes()[0], R::Comp::QualValue), R::must_escape(alone.as_bytes()[0], R::Comp::Subpath), alone.len()));
    });
    let scalar_evals = total.evals;
    // all ASCII pairs
    let pairs = par_items(128, threads(), |a, acc| {
        for b in 0..128u8 {
            let text: String = [a as u8 as char, b as char].iter().collect();
            for (fl, ty) in &flavors {
                for pos in 0..5 {
                    let spec = spec_with(ty, pos, &text);
                    if ev.eval(fl, &spec, acc) {
                        acc.nontrivial += 1;
                    }
                }
            }
        }
    });
    let pair_evals = pairs.evals;
    total.merge(pairs);
    let rep = json!({"engine": "E-sweep", "scalar_values": N_SCALARS, "embeddings": ["c", "a c b"], "positions": POSITIONS, "flavors": flavors, "scalar_builds": scalar_evals, "ascii_pair_builds": pair_evals});
    (total, rep)
}

// ------------------------------------------------------------------------------------------------
// C08

fn pct_all(s: &str) -> String {
    let mut out = String::new();
    for b in s.bytes() {
        out.push_str(&format!("%{:02X}", b));
    }
    out
}

struct Grab {
    got: Option<(Obs, String)>,
    err: Option<(Option<ErrClass>, String)>,
}
impl WithPurl for Grab {
    fn ok<T: Flavor>(&mut self, _f: &'static str, p: &purl::GenericPurl<T>, _acc: &mut Acc) {
        self.got = Some((observe(p), p.to_string()));
    }
    fn refused(&mut self, _f: &'static str, c: Option<ErrClass>, t: &str, _acc: &mut Acc) {
        self.err = Some((c, t.to_owned()));
    }
}

/// One typed name through both entry points against the rule.
#[cfg(feature = "typed")]
pub fn c08_name_case(ty: &str, name: &str, acc: &mut Acc) {
    acc.evals += 1;
    let case = json!({"engine": "c08-name", "ty": ty, "name": name});
    let r = guarded(|| {
        let spec = spec_with(ty, 1, name);
        let want_name = R::name_rule(ty, name);
        let note = if name.chars().any(|c| !c.is_ascii() && !c.is_uppercase() && !c.to_lowercase().eq([c])) { " [titlecase]" } else { "" };
        // builder
        let mut g = Grab { got: None, err: None };
        build_flavor("PackageType", &spec, acc, &mut g);
        let built = match g.got {
            Some(x) => x,
            None => {
                acc.violate(Violation { prop: "C08", kind: "builder-refuses".into(), case: case.clone(), detail: format!("builder refuses {:?}: {:?}", spec, g.err) });
                return;
            },
        };
        if built.0.name != want_name {
            acc.violate(Violation { prop: "C08", kind: "name-rule-builder".into(), case: case.clone(), detail: format!("builder: {ty} name {:?} came out as {:?}, rule gives {:?}{note}", name, built.0.name, want_name) });
        }
        if built.0.ns.as_deref() != (if ty == "maven" { Some("g") } else { None }) || built.0.version.is_some() || !built.0.quals.is_empty() || built.0.subpath.is_some() {
            acc.violate(Violation { prop: "C08", kind: "other-fields-touched".into(), case: case.clone(), detail: format!("builder result {:?}", built.0) });
        }
        // parser, name fully percent-encoded
        let input = format!("pkg:{}/{}{}", ty, if ty == "maven" { "g/" } else { "" }, pct_all(name));
        acc.calls += 1;
        match <purl::PackageType as PFlavor>::parse(&input) {
            Err(e) => acc.violate(Violation { prop: "C08", kind: "parser-refuses".into(), case: case.clone(), detail: format!("parser refuses {:?}: {}", input, e) }),
            Ok(p) => {
                let o = observe(&p);
                if o.name != want_name {
                    acc.violate(Violation { prop: "C08", kind: "name-rule-parser".into(), case: case.clone(), detail: format!("parser: {ty} name {:?} came out as {:?}, rule gives {:?}{note}", name, o.name, want_name) });
                }
                if o != built.0 || p.to_string() != built.1 {
                    acc.violate(Violation { prop: "C08", kind: "entry-points-differ".into(), case: case.clone(), detail: format!("parser {:?} vs builder {:?}", o, built.0) });
                }
                // idempotence of the rule (C10 flavour of the same fact)
                if R::name_rule(ty, &o.name) != o.name && o.name == want_name {
                    acc.violate(Violation { prop: "C08", kind: "rule-not-idempotent".into(), case: case.clone(), detail: format!("rule applied twice changes {:?}", o.name) });
                }
            },
        }
        acc.nontrivial += 1;
        acc.sig(&(ty.len(), want_name == name, want_name.len().min(4)));
    });
    if let Err(msg) = r {
        acc.violate(Violation { prop: "C06", kind: "panic".into(), case, detail: msg });
    }
}

/// maven: a namespace spelling without a non-empty segment is refused by the builder, any other accepted.
#[cfg(feature = "typed")]
pub fn c08_maven_case(s: &str, acc: &mut Acc) {
    acc.evals += 1;
    let case = json!({"engine": "c08-maven-ns", "ns": s});
    let spec = BuildSpec { ty: "maven".into(), ns: s.to_owned(), name: "n".into(), ..Default::default() };
    let mut g = Grab { got: None, err: None };
    let _ = guarded(|| build_flavor("PackageType", &spec, acc, &mut g));
    let has_segment = s.split('/').any(|x| !x.is_empty());
    match (&g.got, has_segment) {
        (Some(_), false) => acc.violate(Violation { prop: "C08", kind: "maven-accepted".into(), case, detail: format!("builder accepts maven namespace {:?} [maven namespace without a non-empty segment]", s) }),
        (None, true) => acc.violate(Violation { prop: "C08", kind: "maven-refused".into(), case, detail: format!("builder refuses maven namespace {:?}: {:?}", s, g.err) }),
        (None, false) => {
            if g.err.as_ref().map(|e| e.0) != Some(Some(ErrClass::NoNamespace)) {
                acc.count("maven_without_namespace_refused_with_another_error");
            }
        },
        _ => {},
    }
    acc.nontrivial += 1;
    acc.sig(&("maven", has_segment));
}

/// "For every type the namespace, version, qualifiers and subpath are exactly what the type-agnostic
/// parser returns": values that a well-meant normalisation would touch (version prefixes, numeric
/// forms, case, trimming, escapes of another ecosystem) in every field other than the name, typed
/// versus type-agnostic, through the builder and through the parser.
#[cfg(feature = "typed")]
pub fn c08_other_fields(acc: &mut Acc) -> u64 {
    let mut values: Vec<String> = crate::pools::NEAR.iter().map(|s| s.to_string()).collect();
    for v in ["v1.2.3", "V2", "v", "vv1", "1.0.0", "1.0.0+build+5", "1.0.0-SNAPSHOT", "==1.0", "latest", "!azure", "g/!azure/x", "@scope", "%40scope", "~1", "*", "1.0.0.RELEASE", "2024.01", "r1", "go1.22", "+incompatible", "v2.0.0+incompatible", "x86_64", "A B", "a+b", "A-B_c.D"] {
        values.push(v.to_owned());
    }
    // values from the specification's own vocabulary: the default registries of the known types, common
    // VCS and download URL shapes (as qualifier values, where the crate has typed accessors for them)
    for v in crate::pools::SPEC_URLS {
        values.push(v.to_string());
    }
    for v in ["jar", "pom", "war", "sources", "javadoc", "ruby", "java", "x86_64", "linux", "noarch", "any", "default", "none", "null", "true", "0"] {
        values.push(v.to_owned());
    }
    let mut n = 0u64;
    for ty in R::KNOWN_TYPES {
        for field in [0usize, 2, 3, 4, 5, 6, 7, 8, 9, 10, 11] {
            for v in &values {
                if v.is_empty() {
                    continue;
                }
                n += 1;
                acc.evals += 1;
                let case = json!({"engine": "c08-other-fields", "ty": ty, "field": field, "value": v});
                let r = guarded(|| {
                    // fields 5..7: the value under a well-known qualifier key
                    let mut spec = if field >= 5 {
                        let mut sp = spec_with(ty, 1, "n");
                        sp.quals = vec![(["repository_url", "download_url", "vcs_url", "type", "classifier", "platform", "arch"][field - 5].to_owned(), v.clone())];
                        sp
                    } else {
                        spec_with(ty, field, v)
                    };
                    if ty == "maven" && field == 0 && !v.split('/').any(|x| !x.is_empty()) {
                        return;
                    }
                    // typed and type-agnostic builds of the same fields
                    let mut gt = Grab { got: None, err: None };
                    build_flavor("PackageType", &spec, acc, &mut gt);
                    let mut gg = Grab { got: None, err: None };
                    build_flavor("String", &spec, acc, &mut gg);
                    let (Some(t), Some(g)) = (gt.got, gg.got) else {
                        acc.violate(Violation { prop: "C08", kind: "other-fields-refused".into(), case: case.clone(), detail: format!("typed build {:?}, type-agnostic build {:?}", gt.err, gg.err) });
                        return;
                    };
                    if t.0.ns != g.0.ns || t.0.version != g.0.version || t.0.quals != g.0.quals || t.0.subpath != g.0.subpath {
                        acc.violate(Violation { prop: "C08", kind: "other-fields-touched".into(), case: case.clone(), detail: format!("typed build {:?}, type-agnostic build {:?}", t.0, g.0) });
                    }
                    // and through the parser, from the type-agnostic canonical string
                    acc.calls += 2;
                    match (<purl::PackageType as PFlavor>::parse(&g.1), <String as PFlavor>::parse(&g.1)) {
                        (Ok(pt), Ok(pg)) => {
                            let (ot, og) = (observe(&pt), observe(&pg));
                            if ot.ns != og.ns || ot.version != og.version || ot.quals != og.quals || ot.subpath != og.subpath {
                                acc.violate(Violation { prop: "C08", kind: "other-fields-touched".into(), case: case.clone(), detail: format!("{:?}: typed parse {:?}, type-agnostic parse {:?}", g.1, ot, og) });
                            }
                        },
                        (Err(e), Ok(_)) => acc.violate(Violation { prop: "C08", kind: "other-fields-refused".into(), case: case.clone(), detail: format!("{:?} is refused by the typed parser only: {e}", g.1) }),
                        _ => {},
                    }
                    spec.name.clear();
                    acc.nontrivial += 1;
                    acc.sig(&("other-fields", field));
                });
                if let Err(msg) = r {
                    acc.violate(Violation { prop: "C06", kind: "panic".into(), case, detail: msg });
                }
            }
        }
    }
    n
}

/// "A well-formed type other than the seven known ones is refused by the typed PURL whenever the
/// type-agnostic PURL accepts the string": the neighbours of the known names (every proper prefix and
/// suffix, one letter more, doubled, joined with another name), in lower and upper case.
#[cfg(feature = "typed")]
pub fn c08_unknown_types(acc: &mut Acc) -> u64 {
    let mut cands: Vec<String> = Vec::new();
    for name in R::KNOWN_TYPES {
        for i in 1..name.len() {
            cands.push(name[..i].to_owned());
            cands.push(name[i..].to_owned());
        }
        for extra in ["x", "2", "s", "-", ".", "+"] {
            cands.push(format!("{name}{extra}"));
            cands.push(format!("{extra}{name}"));
        }
        cands.push(format!("{name}{name}"));
        cands.push(format!("{name}-{}", R::KNOWN_TYPES[0]));
    }
    let mut n = 0u64;
    for c in cands {
        for ty in [c.clone(), c.to_ascii_uppercase()] {
            if R::KNOWN_TYPES.contains(&ty.to_ascii_lowercase().as_str()) {
                continue;
            }
            for rest in ["g/n", "g/N_a.b@1?k=v#s"] {
                n += 1;
                acc.evals += 1;
                acc.calls += 2;
                let input = format!("pkg:{ty}/{rest}");
                let case = json!({"engine": "c08-unknown-type", "input": input});
                let r = guarded(|| {
                    if <String as PFlavor>::parse(&input).is_ok() {
                        if let Ok(p) = <purl::PackageType as PFlavor>::parse(&input) {
                            acc.violate(Violation { prop: "C08", kind: "unknown-type-accepted".into(), case: case.clone(), detail: format!("{:?} has the unknown type {:?} but the typed PURL accepts it as {:?}", input, ty, observe(&p)) });
                        }
                        acc.nontrivial += 1;
                    }
                    acc.sig(&("unknown-type", ty.len().min(8)));
                });
                if let Err(m) = r {
                    acc.violate(Violation { prop: "C06", kind: "panic".into(), case, detail: m });
                }
            }
        }
    }
    n
}

/// maven without a namespace is refused whatever the name looks like (builder, and parser with the
/// name fully percent-encoded and — where that is the same PURL — written raw).
#[cfg(feature = "typed")]
pub fn c08_maven_no_namespace(name: &str, acc: &mut Acc) {
    acc.evals += 1;
    let case = json!({"engine": "c08-maven-no-ns", "name": name});
    let r = guarded(|| {
        let spec = BuildSpec { ty: "maven".into(), name: name.to_owned(), ..Default::default() };
        let mut g = Grab { got: None, err: None };
        build_flavor("PackageType", &spec, acc, &mut g);
        if let Some(x) = g.got {
            acc.violate(Violation { prop: "C08", kind: "maven-accepted".into(), case: case.clone(), detail: format!("builder accepts maven without namespace, name {:?}: {:?}", name, x.0) });
        }
        let mut inputs = vec![format!("pkg:maven/{}", pct_all(name))];
        if !name.contains(['/', '@', '?', '#', '%']) {
            inputs.push(format!("pkg:maven/{name}"));
        }
        for input in inputs {
            acc.calls += 1;
            if let Ok(p) = <purl::PackageType as PFlavor>::parse(&input) {
                acc.violate(Violation { prop: "C08", kind: "maven-accepted".into(), case: case.clone(), detail: format!("parser accepts {:?} (maven without namespace) as {:?}", input, observe(&p)) });
            }
        }
        acc.nontrivial += 1;
        acc.sig(&"maven-no-ns");
    });
    if let Err(msg) = r {
        acc.violate(Violation { prop: "C06", kind: "panic".into(), case, detail: msg });
    }
}

#[cfg(feature = "typed")]
pub fn c08_sweep(tier: Tier) -> (Acc, Value) {
    let mut total = for_all_scalars(|c, acc| {
        let alone = c.to_string();
        let mid = format!("x{c}x");
        for ty in R::KNOWN_TYPES {
            c08_name_case(ty, &alone, acc);
            c08_name_case(ty, &mid, acc);
        }
        c08_maven_no_namespace(&alone, acc);
        c08_maven_no_namespace(&mid, acc);
        // word-final and after-upper-case positions, with and without a separator in the name
        // (context-sensitive case mappings such as the final sigma; ASCII fast paths)
        for name in [format!("a{c}"), format!("A{c}"), format!("_a{c}"), format!("B.a{c}-"), format!("{c}_b"), format!("{c}{c}-.x")] {
            c08_name_case("pypi", &name, acc);
            c08_name_case("nuget", &name, acc);
        }
        if c == 'ǅ' || c == 'É' {
            acc.sample(|| json!({"type": "nuget", "name": alone}));
        }
    });
    let scalar_cases = total.evals;
    let n = match tier {
        Tier::Quick => 6,
        Tier::Thorough => 8,
    };
    let alphabet = ["a", "A", "1", "-", "_", ".", "é", "É", "ǅ"];
    let short = for_all_short(&alphabet, n, |s, acc| {
        if s.is_empty() {
            return;
        }
        c08_name_case("pypi", s, acc);
        c08_name_case("nuget", s, acc);
    });
    let short_cases = short.evals;
    total.merge(short);
    // the same rule for names that do not fit the small string's inline buffer (23 bytes)
    let long_n = n.saturating_sub(2);
    let long = for_all_short(&alphabet, long_n, |s, acc| {
        if s.is_empty() {
            return;
        }
        for filler in ["aaaaaaaaaaaaaaaaaaaa", "Bbbbbbbbbbbbbbbbbbbbbbbb-"] {
            let name = format!("{filler}{s}");
            c08_name_case("pypi", &name, acc);
            c08_name_case("nuget", &name, acc);
        }
    });
    let long_cases = long.evals;
    total.merge(long);
    // names that look like a requirement or coordinate of some ecosystem (extras, constraints, markers,
    // scopes): for every type they are names, kept exactly (after the type's own rule)
    let req = ["a", "B", "1", "[", "]", "(", ")", ",", ";", "=", ">", "<", "~", "^", "*", " ", "\"", "@", ":", "!"];
    let rn = if tier == Tier::Quick { 4 } else { 5 };
    let reqs = for_all_short(&req, rn, |s, acc| {
        if s.is_empty() {
            return;
        }
        for ty in R::KNOWN_TYPES {
            c08_name_case(ty, s, acc);
        }
    });
    total.merge(reqs);
    // maven: every namespace spelling without a non-empty segment is refused by builder and parser
    let maven = for_all_short(&["/", "a", "%2F", "."], 5, |s, acc| c08_maven_case(s, acc));
    let maven_cases = maven.evals;
    total.merge(maven);
    let mut of = Acc::new();
    let other_field_cases = c08_other_fields(&mut of) + c08_unknown_types(&mut of);
    total.merge(of);
    (total, json!({"engine": "E-sweep", "scalar_values": N_SCALARS, "scalar_name_cases": scalar_cases, "short_name_alphabet": alphabet, "short_name_max_len": n, "short_name_cases": short_cases, "long_name_max_tail": long_n, "long_name_cases": long_cases, "maven_namespace_cases": maven_cases, "other_field_cases": other_field_cases}))
}

// ------------------------------------------------------------------------------------------------
// C15

#[cfg(feature = "typed")]
pub fn c15_case(s: &str, acc: &mut Acc) {
    use std::str::FromStr;
    acc.evals += 1;
    acc.calls += 1;
    let case = json!({"engine": "c15", "input": s});
    match guarded(|| purl::PackageType::from_str(s)) {
        Err(m) => acc.violate(Violation { prop: "C06", kind: "panic".into(), case: case.clone(), detail: m }),
        Ok(Ok(t)) => {
            acc.accepted += 1;
            acc.sig(&("ok", t.name()));
            if s.to_ascii_lowercase() != t.name() {
                acc.violate(Violation { prop: "C15", kind: "foreign-string-accepted".into(), case: case.clone(), detail: format!("{:?} is taken for {:?}", s, t.name()) });
            }
        },
        Ok(Err(_)) => {
            acc.rejected += 1;
            acc.sig(&"err");
            if R::KNOWN_TYPES.contains(&s.to_ascii_lowercase().as_str()) {
                acc.violate(Violation { prop: "C15", kind: "case-variant-refused".into(), case: case.clone(), detail: format!("{:?} is a case variant of a known type but is refused", s) });
            }
        },
    }
    // the same string as the type segment of a whole PURL: it is taken for a known type only if it
    // is that type's name in some letter case
    if !s.is_empty() && !s.contains(['/', '?', '#', '@']) {
        acc.calls += 1;
        let text = format!("pkg:{s}/g/n");
        if let Ok(Ok(p)) = guarded(|| <purl::PackageType as PFlavor>::parse(&text)) {
            let name = p.package_type().name();
            if s.to_ascii_lowercase() != name {
                acc.violate(Violation { prop: "C15", kind: "foreign-type-segment-accepted".into(), case: case.clone(), detail: format!("{:?} is parsed as a PURL of type {:?}", text, name) });
            }
        } else if R::KNOWN_TYPES.contains(&s.to_ascii_lowercase().as_str()) {
            acc.violate(Violation { prop: "C15", kind: "case-variant-refused-in-purl".into(), case, detail: format!("{:?} is refused although its type is a case variant of a known type", text) });
        }
    }
}

#[cfg(feature = "typed")]
pub fn c15_sweep(tier: Tier) -> (Acc, Value) {
    use std::str::FromStr;

    use purl::{PackageType, PurlShape};
    let mut total = Acc::new();
    // (1) the seven variants: all spellings agree on one lower-case name
    let variants = [PackageType::Cargo, PackageType::Gem, PackageType::Golang, PackageType::Maven, PackageType::Npm, PackageType::NuGet, PackageType::PyPI];
    let mut names = Vec::new();
    for (i, t) in variants.iter().enumerate() {
        total.evals += 1;
        total.nontrivial += 1;
        let case = json!({"engine": "c15-variant", "index": i});
        let name = t.name();
        names.push(name);
        let mut forms: Vec<(&str, String)> = vec![
            ("name()", name.to_owned()),
            ("Display", t.to_string()),
            ("AsRef<str>", AsRef::<str>::as_ref(t).to_owned()),
            ("From<PackageType> for &str", <&'static str>::from(*t).to_owned()),
            ("PurlShape::package_type()", t.package_type().into_owned()),
        ];
        let mut spec = BuildSpec { ty: name.to_owned(), name: "n".into(), ..Default::default() };
        spec.ns = "g".into();
        if let Built::Ok(p) = build_with(*t, &spec, &mut total) {
            let s = p.to_string();
            let seg = s.strip_prefix("pkg:").and_then(|r| r.split('/').next()).unwrap_or("").to_owned();
            forms.push(("type segment of to_string()", seg));
        } else {
            total.violate(Violation { prop: "C15", kind: "cannot-build".into(), case: case.clone(), detail: format!("cannot build a PURL of type {name}") });
        }
        // Display under formatter flags: wherever the output still shows `pkg:<type>/`, the type segment is the name
        if let Built::Ok(p) = build_with(*t, &spec, &mut total) {
            for (what, text) in [("{:<14}", format!("{:<14}", p)), ("{:>30}", format!("{:>30}", p)), ("{:.7}", format!("{:.7}", p)), ("{:.0}", format!("{:.0}", p)), ("{:*^40.12}", format!("{:*^40.12}", p)), ("{:#?}-free {:+}", format!("{:+}", p))] {
                if let Some(i) = text.find("pkg:") {
                    if let Some(j) = text[i + 4..].find('/') {
                        let seg = &text[i + 4..i + 4 + j];
                        if seg != name {
                            total.violate(Violation { prop: "C15", kind: "names-disagree".into(), case: case.clone(), detail: format!("formatted with {what}: {:?} shows the type segment {:?}, name() gives {:?}", text, seg, name) });
                        }
                    }
                }
            }
        }
        #[cfg(feature = "serde")]
        {
            forms.push(("serde_json", serde_json::to_value(t).ok().and_then(|v| v.as_str().map(str::to_owned)).unwrap_or_else(|| "<not a string>".into())));
            match serde_json::from_value::<PackageType>(json!(name)) {
                Ok(back) if back == *t => {},
                other => total.violate(Violation { prop: "C15", kind: "serde-name-roundtrip".into(), case: case.clone(), detail: format!("serde does not read {:?} back: {:?}", name, other.ok()) }),
            }
            // every way a deserialiser may hand the string over: borrowed from the input, transient
            // (reader, escape sequence inside the JSON text), owned
            {
                use serde::de::value::{BorrowedStrDeserializer, Error as DeErr, StrDeserializer, StringDeserializer};
                use serde::Deserialize;
                let quoted = format!("\"{name}\"");
                let escaped = format!("\"\\u{:04x}{}\"", name.as_bytes()[0] as u32, &name[1..]);
                let routes: Vec<(&str, Option<PackageType>)> = vec![
                    ("serde_json::from_str", serde_json::from_str::<PackageType>(&quoted).ok()),
                    ("serde_json::from_str (escaped first letter)", serde_json::from_str::<PackageType>(&escaped).ok()),
                    ("serde_json::from_slice", serde_json::from_slice::<PackageType>(quoted.as_bytes()).ok()),
                    ("serde_json::from_reader", serde_json::from_reader::<_, PackageType>(std::io::Cursor::new(quoted.as_bytes())).ok()),
                    ("StrDeserializer", PackageType::deserialize(StrDeserializer::<DeErr>::new(name)).ok()),
                    ("BorrowedStrDeserializer", PackageType::deserialize(BorrowedStrDeserializer::<DeErr>::new(name)).ok()),
                    ("StringDeserializer", PackageType::deserialize(StringDeserializer::<DeErr>::new(name.to_owned())).ok()),
                ];
                for (what, got) in routes {
                    total.calls += 1;
                    if got != Some(*t) {
                        total.violate(Violation { prop: "C15", kind: "serde-name-roundtrip".into(), case: case.clone(), detail: format!("{what} does not read {:?} back: {:?}", name, got) });
                    }
                }
            }
        }
        for (what, v) in &forms {
            if v != name {
                total.violate(Violation { prop: "C15", kind: "names-disagree".into(), case: case.clone(), detail: format!("{what} gives {:?}, name() gives {:?}", v, name) });
            }
        }
        if name != R::KNOWN_TYPES[i] || name.bytes().any(|b| !b.is_ascii_lowercase()) {
            total.violate(Violation { prop: "C15", kind: "name-not-lowercase".into(), case: case.clone(), detail: format!("name {:?} (expected {:?})", name, R::KNOWN_TYPES[i]) });
        }
        if PackageType::from_str(name).ok() != Some(*t) {
            total.violate(Violation { prop: "C15", kind: "name-does-not-parse-back".into(), case: case.clone(), detail: format!("{:?} does not parse back to its variant", name) });
        }
        for u in &variants[..i] {
            if u.name() == name {
                total.violate(Violation { prop: "C15", kind: "names-collide".into(), case: case.clone(), detail: format!("two variants share the name {:?}", name) });
            }
        }
        // all 2^len case variants
        let len = name.len();
        for mask in 0..(1u32 << len) {
            let s: String = name.chars().enumerate().map(|(j, c)| if mask & (1 << j) != 0 { c.to_ascii_uppercase() } else { c }).collect();
            total.evals += 1;
            total.nontrivial += 1;
            total.calls += 1;
            if PackageType::from_str(&s).ok() != Some(*t) {
                total.violate(Violation { prop: "C15", kind: "case-variant-refused".into(), case: json!({"engine": "c15", "input": s}), detail: format!("{:?} does not parse to {:?}", s, name) });
            }
            if mask == 5 {
                total.samples.push(json!(s));
            }
        }
    }
    // (2) all short strings over the letters of the names (both cases) and look-alikes
    let alphabet: Vec<&str> = vec![
        "a", "c", "e", "g", "i", "l", "m", "n", "o", "p", "r", "t", "u", "v", "y", "A", "C", "E", "G", "I", "L", "M", "N", "O", "P", "R", "T", "U", "V", "Y", "ſ", "\u{212A}", "ı", "İ", "ｇ",
        "ο",
    ];
    let n = match tier {
        Tier::Quick => 4,
        Tier::Thorough => 5,
    };
    let short = for_all_short(&alphabet, n, |s, acc| {
        c15_case(s, acc);
        acc.nontrivial += 1;
    });
    let short_n = short.evals;
    total.merge(short);
    // (3) every scalar substituted at / inserted at every position of every name
    let subst = for_all_scalars(|c, acc| {
        if tier == Tier::Quick {
            let u = c as u32;
            let keep = u < 0x0500 || (0x1E00..0x2200).contains(&u) || (0xFF00..0xFFF0).contains(&u) || (0x10400..0x10450).contains(&u);
            if !keep {
                return;
            }
        }
        let mut buf = String::new();
        for name in R::KNOWN_TYPES {
            let chars: Vec<char> = name.chars().collect();
            for pos in 0..=chars.len() {
                // insertion
                buf.clear();
                buf.extend(&chars[..pos]);
                buf.push(c);
                buf.extend(&chars[pos..]);
                c15_case(&buf, acc);
                acc.nontrivial += 1;
                // substitution
                if pos < chars.len() {
                    buf.clear();
                    buf.extend(&chars[..pos]);
                    buf.push(c);
                    buf.extend(&chars[pos + 1..]);
                    c15_case(&buf, acc);
                    if !chars[pos].eq_ignore_ascii_case(&c) {
                        acc.nontrivial += 1;
                    }
                }
            }
        }
    });
    let subst_n = subst.evals;
    total.merge(subst);
    // (4) deletions, transpositions, paddings, other spec type names
    let mut misc: Vec<String> = Vec::new();
    for name in R::KNOWN_TYPES {
        let chars: Vec<char> = name.chars().collect();
        for i in 0..chars.len() {
            let mut d = chars.clone();
            d.remove(i);
            misc.push(d.iter().collect());
            if i + 1 < chars.len() {
                let mut t = chars.clone();
                t.swap(i, i + 1);
                misc.push(t.iter().collect());
            }
        }
        for pad in [" ", "\t", "\n", "\0", "/", ":", "pkg:"] {
            misc.push(format!("{pad}{name}"));
            misc.push(format!("{name}{pad}"));
        }
        misc.push(format!("{name}{name}"));
        misc.push(String::new());
        // each letter percent-encoded, both hex cases, lower- and upper-case letter
        for i in 0..chars.len() {
            for c in [chars[i], chars[i].to_ascii_uppercase()] {
                for enc in [format!("%{:02X}", c as u8), format!("%{:02x}", c as u8)] {
                    let mut t: String = chars[..i].iter().collect();
                    t.push_str(&enc);
                    t.extend(&chars[i + 1..]);
                    misc.push(t);
                }
            }
        }
    }
    for other in [
        "alpm", "apk", "bitbucket", "bitnami", "cocoapods", "composer", "conan", "conda", "cpan", "cran", "deb", "docker", "generic", "github", "hackage", "hex", "huggingface", "luarocks", "mlflow", "oci", "pub", "qpkg", "rpm", "swid",
        "swift", "go", "pip", "rubygems", "crates", "node", "mvn", "py", "python", "nugets", "npmjs",
    ] {
        misc.push(other.to_owned());
        misc.push(other.to_ascii_uppercase());
    }
    let misc_n = misc.len();
    for s in &misc {
        c15_case(s, &mut total);
        total.nontrivial += 1;
    }
    (total, json!({"engine": "E-sweep", "variants": names, "short_alphabet": alphabet, "short_max_len": n, "short_strings": short_n, "scalar_substitution_and_insertion_cases": subst_n, "scalar_block_restriction_in_quick_tier": tier == Tier::Quick, "misc_strings": misc_n}))
}

// ------------------------------------------------------------------------------------------------
// C18

/// reference split of a combined name
pub fn ref_split(ty: &str, combined: &str) -> (String, String) {
    match ty {
        "golang" | "npm" => {
            let b = combined.as_bytes();
            let mut i = b.len();
            while i > 0 {
                i -= 1;
                if b[i] == b'/' {
                    return (combined[..i].to_owned(), combined[i + 1..].to_owned());
                }
            }
            (String::new(), combined.to_owned())
        },
        "maven" => match combined.bytes().position(|x| x == b':') {
            Some(i) => (combined[..i].to_owned(), combined[i + 1..].to_owned()),
            None => (String::new(), combined.to_owned()),
        },
        _ => (String::new(), combined.to_owned()),
    }
}

#[cfg(feature = "typed")]
pub fn c18_forward(ty: &str, combined: &str, acc: &mut Acc) {
    acc.evals += 1;
    acc.calls += 1;
    let case = json!({"engine": "c18-forward", "ty": ty, "combined": combined});
    let pt = <purl::PackageType as Flavor>::mk(ty).expect("known type");
    let r = guarded(|| {
        let b = purl::Purl::builder_with_combined_name(pt, combined);
        let (ns, name) = ref_split(ty, combined);
        let got_ns: &str = &b.parts.namespace;
        let got_name: &str = &b.parts.name;
        if got_ns != ns || got_name != name {
            acc.violate(Violation { prop: "C18", kind: "split".into(), case: case.clone(), detail: format!("{ty}: {:?} split into namespace {:?} / name {:?}, expected {:?} / {:?}", combined, got_ns, got_name, ns, name) });
        }
        if !b.parts.version.is_empty() || !b.parts.subpath.is_empty() || !b.parts.qualifiers.is_empty() || b.package_type != pt {
            acc.violate(Violation { prop: "C18", kind: "other-fields".into(), case: case.clone(), detail: "constructor touched other fields".into() });
        }
        acc.sig(&(ty.len(), ns.is_empty(), name.is_empty()));
        acc.nontrivial += 1;
        // building it reports the same namespace and name (after the type's name rule)
        acc.calls += 1;
        match b.build() {
            Ok(p) => {
                let want_ns = if ns.is_empty() { None } else { Some(ns.as_str()) };
                if p.namespace() != want_ns || p.name() != R::name_rule(ty, &name) {
                    acc.violate(Violation { prop: "C18", kind: "built".into(), case: case.clone(), detail: format!("built PURL has namespace {:?} name {:?}", p.namespace(), p.name()) });
                }
                c18_inverse(&p, &case, acc);
            },
            Err(_) => {},
        }
    });
    if let Err(m) = r {
        acc.violate(Violation { prop: "C06", kind: "panic".into(), case, detail: m });
    }
}

/// For a typed PURL that satisfies the side condition, combined_name() fed back reproduces
/// namespace and name. Returns whether the side condition held.
#[cfg(feature = "typed")]
pub fn c18_inverse(p: &purl::Purl, case: &Value, acc: &mut Acc) -> bool {
    let ty = p.package_type().name();
    let side = match ty {
        "golang" | "npm" => !p.name().contains('/'),
        "maven" => !p.namespace().unwrap_or("").contains(':'),
        _ => p.namespace().is_none(),
    };
    if !side {
        acc.count("inverse_side_condition_not_met");
        return false;
    }
    acc.calls += 3;
    let combined = p.combined_name().into_owned();
    let b = purl::Purl::builder_with_combined_name(*p.package_type(), &combined);
    let ns: &str = &b.parts.namespace;
    let name: &str = &b.parts.name;
    if ns != p.namespace().unwrap_or("") || name != p.name() {
        acc.violate(Violation { prop: "C18", kind: "inverse".into(), case: case.clone(), detail: format!("{ty}: namespace {:?} name {:?} -> combined {:?} -> namespace {:?} name {:?}", p.namespace(), p.name(), combined, ns, name) });
    } else {
        match b.build() {
            Ok(q) => {
                if q.namespace() != p.namespace() || q.name() != p.name() {
                    acc.violate(Violation { prop: "C18", kind: "inverse-built".into(), case: case.clone(), detail: format!("{ty}: rebuilt from combined name {:?}: namespace {:?} name {:?}", combined, q.namespace(), q.name()) });
                }
            },
            Err(e) => acc.violate(Violation { prop: "C18", kind: "inverse-build-fails".into(), case: case.clone(), detail: format!("{ty}: builder from combined name {:?} does not build: {e}", combined) }),
        }
    }
    acc.count("inverse_checked");
    true
}

#[cfg(feature = "typed")]
pub fn c18_sweep(tier: Tier) -> (Acc, Value) {
    let n = match tier {
        Tier::Quick => 6,
        Tier::Thorough => 8,
    };
    // (the escaped forms of the separators are ordinary text in a combined name: it is not a PURL string)
    let alphabet = ["a", "B", "/", ":", ".", "@", "é", "v", "2", "%2F", "%3A", "%2f"];
    let mut total = for_all_short(&alphabet, n, |s, acc| {
        for ty in R::KNOWN_TYPES {
            c18_forward(ty, s, acc);
        }
        if s == "a/B:." {
            acc.sample(|| json!({"combined": s}));
        }
    });
    // the requirement / coordinate syntaxes of the ecosystems (extras, version constraints, markers,
    // scopes, coordinates): all of it is plain text in a combined name
    let req = ["a", "1", "[", "]", "(", ")", ",", ";", "=", ">", "<", "~", "^", "*", " ", "\"", "@", ":", "/", "!"];
    let rn = if tier == Tier::Quick { 4 } else { 5 };
    let reqs = for_all_short(&req, rn, |s, acc| {
        for ty in R::KNOWN_TYPES {
            c18_forward(ty, s, acc);
        }
    });
    total.merge(reqs);
    let short_n = total.evals;
    // every scalar in a combined name
    let sc = for_all_scalars(|c, acc| {
        // between separators, and between letters (a marker character followed by a letter) in both parts
        for s in [format!("a/{c}:b/{c}"), format!("g{c}h/x{c}y:z{c}w")] {
            for ty in R::KNOWN_TYPES {
                c18_forward(ty, &s, acc);
            }
        }
    });
    let sc_n = sc.evals;
    total.merge(sc);
    (total, json!({"engine": "E-sweep", "combined_name_alphabet": alphabet, "max_len": n, "short_cases": short_n, "scalar_cases": sc_n}))
}

// ------------------------------------------------------------------------------------------------
// C13 — the four built-in type parameters through the builder

#[derive(PartialEq, Debug)]
enum FlavorOutcome {
    Built(Obs, String),
    Refused(Option<ErrClass>, String),
}

struct GrabOutcome(Option<FlavorOutcome>, Option<Value>, u32);
impl WithPurl for GrabOutcome {
    fn ok<T: Flavor>(&mut self, f: &'static str, p: &purl::GenericPurl<T>, acc: &mut Acc) {
        // Display panics when a built-in type parameter let an invalid type through (C06 reports the
        // panic); the outcomes must still be comparable across type parameters
        let text = guarded(|| p.to_string()).unwrap_or_else(|m| format!("<to_string panics: {m}>"));
        let panicked = text.starts_with("<to_string panics");
        self.0 = Some(FlavorOutcome::Built(observe(p), text));
        if panicked {
            acc.violate(Violation { prop: "C06", kind: "panic".into(), case: self.1.clone().unwrap_or(json!({"engine": "c13-flavors"})), detail: format!("{f}: to_string() of a built PURL panics") });
            // C03: "to_string() is always pkg: + lower-case type + ..." - for a built-in type parameter a panic is not that
            if self.2 & M03 != 0 {
                acc.violate(Violation { prop: "C03", kind: "to_string-panics".into(), case: self.1.clone().unwrap_or(json!({"engine": "c13-flavors"})), detail: format!("{f}: build() handed out a PURL (type {:?}) whose to_string() panics", observe(p).ty) });
            }
            return;
        }
        if let Some(case) = &self.1 {
            // the value monitors for every type parameter (Cow in both forms has no parser, so the
            // builder is the only way to obtain such values)
            let mut c = case.clone();
            c["flavor"] = json!(f);
            if self.2 & M10 != 0 {
                m10(p, &c, acc);
            }
            if self.2 & M03 != 0 {
                m03(p, &c, acc);
            }
            if self.2 & M04 != 0 {
                m04(p, true, &c, acc);
            }
        }
    }
    fn refused(&mut self, _f: &'static str, c: Option<ErrClass>, t: &str, _acc: &mut Acc) {
        self.0 = Some(FlavorOutcome::Refused(c, t.to_owned()));
    }
}

pub fn c13_flavor_case(spec: &BuildSpec, mon: u32, acc: &mut Acc) {
    acc.evals += 1;
    let rebuild = mon != 0;
    let case = json!({"engine": if rebuild { "flavor-monitors" } else { "c13-flavors" }, "mon": mon, "spec": spec.to_json()});
    let r = guarded(|| {
        let mut first: Option<(&str, FlavorOutcome)> = None;
        for fl in ["String", "CowOwned", "CowBorrowed", "SmallString", "SmallStringHeap"] {
            #[cfg(not(feature = "smart"))]
            if fl.starts_with("SmallString") {
                continue;
            }
            let mut g = GrabOutcome(None, if rebuild { Some(case.clone()) } else { None }, mon);
            build_flavor(fl, spec, acc, &mut g);
            let Some(out) = g.0 else { continue };
            match &first {
                None => {
                    acc.sig(&(matches!(out, FlavorOutcome::Built(..)), spec.ty.len().min(3)));
                    if let FlavorOutcome::Built(o, _) = &out {
                        if o.ty != spec.ty.to_ascii_lowercase() {
                            acc.violate(Violation { prop: "C13", kind: "type-not-lowercased".into(), case: case.clone(), detail: format!("{fl}: type {:?} came out as {:?}", spec.ty, o.ty) });
                        }
                        acc.accepted += 1;
                    } else {
                        acc.rejected += 1;
                    }
                    first = Some((fl, out));
                },
                Some((f0, o0)) => {
                    if *o0 != out {
                        acc.violate(Violation { prop: "C13", kind: "builder-flavors-differ".into(), case: case.clone(), detail: format!("{f0} gives {:?}, {fl} gives {:?}", o0, out) });
                    }
                },
            }
        }
    });
    if let Err(m) = r {
        acc.violate(Violation { prop: "C06", kind: "panic".into(), case, detail: m });
    }
    acc.nontrivial += 1;
}

pub fn c13_sweep(tier: Tier, rebuild: u32) -> (Acc, Value) {
    let rich = |ty: &str| BuildSpec { ty: ty.to_owned(), ns: "A/b".into(), name: "N".into(), version: "1".into(), quals: vec![("K".into(), "v".into())], subpath: "s".into() };
    // every scalar value as a one-character type and after a letter
    let mut total = for_all_scalars(|c, acc| {
        c13_flavor_case(&spec_with(&c.to_string(), 1, "n"), rebuild, acc);
        c13_flavor_case(&rich(&format!("a{c}")), rebuild, acc);
    });
    let scalars = total.evals;
    // all ASCII pairs as type
    let pairs = par_items(128, threads(), |a, acc| {
        for b in 0..128u8 {
            let ty: String = [a as u8 as char, b as char].iter().collect();
            c13_flavor_case(&spec_with(&ty, 1, "n"), rebuild, acc);
        }
    });
    let npairs = pairs.evals;
    total.merge(pairs);
    // short type strings over letters at the edges of the ASCII ranges, digits, specials, an invalid and a non-ASCII character
    let n = if tier == Tier::Quick { 4 } else { 5 };
    let alphabet = ["a", "z", "A", "Z", "m", "M", "9", ".", "+", "-", "!", "É"];
    let short = for_all_short(&alphabet, n, |s, acc| {
        c13_flavor_case(&rich(s), rebuild, acc);
        // the same type with an EMPTY name: two defects at once, every type parameter must still report the same one
        c13_flavor_case(&spec_with(s, 1, ""), rebuild, acc);
        if s == "Zip" {
            acc.sample(|| json!({"type": s}));
        }
    });
    let nshort = short.evals;
    total.merge(short);
    // field values: all pairs of fields over the builder value universe, four type strings
    let u = crate::m_builder::UNIVERSE;
    let fields = par_items(u.len(), threads(), |a, acc| {
        for b in 0..u.len() {
            for (fi, fj) in [(0usize, 1usize), (0, 2), (0, 3), (1, 2), (1, 3), (2, 3)] {
                for ty in ["t", "T.1+x-Z", "", "é"] {
                    for q in [
                        vec![],
                        vec![("K".to_owned(), u[b].to_owned())],
                        vec![("checksum".to_owned(), "B:FF,a:0A".to_owned())],
                        vec![("!".to_owned(), "v".to_owned())],
                        vec![("a".to_owned(), String::new()), ("checksum".to_owned(), "B:FF,a:0A".to_owned()), ("z".to_owned(), u[b].to_owned())],
                    ] {
                        let mut f = ["", "a", "", ""];
                        f[fi] = u[a];
                        f[fj] = u[b];
                        let spec = BuildSpec { ty: ty.to_owned(), ns: f[0].into(), name: f[1].into(), version: f[2].into(), quals: q, subpath: f[3].into() };
                        c13_flavor_case(&spec, rebuild, acc);
                    }
                }
            }
        }
    });
    let nfields = fields.evals;
    total.merge(fields);
    // names that mean something to the crate itself: the well-known package types in all 2^len letter
    // cases, one-edit neighbours, other ecosystems - as plain type strings of the type-agnostic API
    let mut named: Vec<String> = Vec::new();
    for name in R::KNOWN_TYPES {
        for mask in 0..(1u32 << name.len()) {
            named.push(name.chars().enumerate().map(|(j, c)| if mask & (1 << j) != 0 { c.to_ascii_uppercase() } else { c }).collect());
        }
        named.push(format!("{name}x"));
        named.push(format!("{}-{name}", name.to_ascii_uppercase()));
        named.push(name[1..].to_ascii_uppercase());
    }
    for other in ["Generic", "GitHub", "docker", "Deb", "RPM", "composer", "Hex", "conan", "Swift", "pub", "OCI", "cran", "Hackage", "bitbucket", "alpm", "apk", "conda", "cocoapods", "huggingface", "mlflow", "qpkg", "swid", "bitnami"] {
        named.push(other.to_owned());
    }
    let named_acc = par_items(named.len(), threads(), |i, acc| {
        c13_flavor_case(&rich(&named[i]), rebuild, acc);
        c13_flavor_case(&spec_with(&named[i], 1, "A_b.C"), rebuild, acc);
        c13_flavor_case(&spec_with(&named[i], 1, ""), rebuild, acc);
    });
    let nnamed = named_acc.evals;
    total.merge(named_acc);
    (total, json!({"engine": "E-sweep", "flavors": ["String", "Cow::Owned", "Cow::Borrowed", "SmallString"], "well_known_and_other_type_names": nnamed, "scalar_type_cases": scalars, "ascii_pair_types": npairs, "short_type_alphabet": alphabet, "short_type_max_len": n, "short_type_cases": nshort, "field_pair_cases": nfields}))
}
