//! C12 (i) — the typed checksum value against a sorted reference map; also the Checksum /
//! ChecksumValue call-sequence model of C06.

use std::collections::BTreeMap;

use purl::qualifiers::well_known::Checksum;
use serde_json::{json, Value};

use crate::common::*;
use crate::refmodel as R;
use crate::xstate::Model;

#[derive(Clone)]
pub struct CState {
    pub real: Checksum<'static>,
    pub refm: BTreeMap<String, String>,
}

#[derive(Clone, Debug, PartialEq)]
pub enum CAct {
    InsertRaw(String, String),
    InsertBytes(String, Vec<u8>),
    Remove(String),
}

pub struct CModel {
    pub prop: &'static str,
    pub spellings: Vec<String>,
    pub lower: Vec<String>,
    pub acts: Vec<CAct>,
}

fn valid_hex(v: &str) -> bool {
    v.len() % 2 == 0 && v.bytes().all(|b| b.is_ascii_hexdigit())
}

pub fn real_content(c: &Checksum<'_>) -> Vec<(String, String)> {
    let mut v: Vec<(String, String)> = c.iter().map(|(k, v)| (k.to_owned(), v.raw().to_owned())).collect();
    v.sort();
    v
}

/// Text form expected for a reference content: Some(Ok(text)) well-formed, Some(Err) must be refused.
pub fn ref_text(m: &BTreeMap<String, String>) -> Result<String, ()> {
    let mut out = String::new();
    for (i, (k, v)) in m.iter().enumerate() {
        if !valid_hex(v) {
            return Err(());
        }
        if i > 0 {
            out.push(',');
        }
        out.push_str(k);
        out.push(':');
        out.push_str(&v.to_ascii_lowercase());
    }
    Ok(out)
}

impl CModel {
    pub fn new(prop: &'static str, tier: Tier) -> CModel {
        let mut spellings: Vec<&str> = vec!["a", "A", "a1", "A1", "a:b", "ασ", "ΑΣ", "ǅ", "ǆ"];
        if tier == Tier::Thorough {
            spellings.extend(["b", "A:B", "", "é", "É", " a"]);
        }
        let spellings: Vec<String> = spellings.iter().map(|s| s.to_string()).collect();
        let mut lower: Vec<String> = spellings.iter().map(|s| R::lower_per_char(s)).collect();
        lower.sort();
        lower.dedup();
        let mut acts = Vec::new();
        for s in &spellings {
            for v in ["", "00", "0A", "0", "zz"] {
                acts.push(CAct::InsertRaw(s.clone(), v.to_owned()));
            }
            for b in [vec![0u8], vec![0xAB, 0xCD]] {
                acts.push(CAct::InsertBytes(s.clone(), b));
            }
        }
        for l in &lower {
            acts.push(CAct::Remove(l.clone()));
        }
        acts.push(CAct::Remove("absent".to_owned()));
        CModel { prop, spellings, lower, acts }
    }
    fn viol(&self, acc: &mut Acc, trace: &dyn Fn() -> Value, kind: &str, detail: String) {
        acc.violate(Violation { prop: "C12", kind: kind.into(), case: trace(), detail });
    }
}

impl Model for CModel {
    type State = CState;
    type Action = CAct;
    fn name(&self) -> &'static str {
        "checksum-bfs"
    }
    fn inits(&self, _acc: &mut Acc) -> Vec<(Value, CState)> {
        let mut out = vec![(json!("default"), CState { real: Checksum::default(), refm: BTreeMap::new() })];
        // non-initial states: parsed from text
        for text in ["a:00", "B:ff,a:0A", "é:,b:zz", "ǅ:00,A:0"] {
            if let Ok(c) = Checksum::try_from(text) {
                let mut refm = BTreeMap::new();
                for e in text.split(',') {
                    let i = e.rfind(':').unwrap();
                    refm.insert(R::lower_per_char(&e[..i]), e[i + 1..].to_owned());
                }
                out.push((json!({"try_from": text}), CState { real: c, refm }));
            }
        }
        out
    }
    fn actions(&self) -> &[CAct] {
        &self.acts
    }
    fn action_json(&self, a: &CAct) -> Value {
        json!(format!("{:?}", a))
    }
    fn key(&self, s: &CState) -> String {
        format!("{:?}|{:?}", s.refm, real_content(&s.real))
    }
    fn step(&self, s: &CState, a: &CAct, _trace: &dyn Fn() -> Value, acc: &mut Acc) -> CState {
        let mut c = s.real.clone();
        let mut r = s.refm.clone();
        acc.calls += 1;
        match a {
            CAct::InsertRaw(alg, v) => {
                c.insert_raw(alg, v.clone());
                r.insert(R::lower_per_char(alg), v.clone());
            },
            CAct::InsertBytes(alg, b) => {
                c.insert(alg, b.clone());
                r.insert(R::lower_per_char(alg), hex::encode(b));
            },
            CAct::Remove(alg) => {
                c.remove(alg);
                r.remove(alg);
            },
        }
        CState { real: c, refm: r }
    }
    fn check_state(&self, s: &CState, trace: &dyn Fn() -> Value, acc: &mut Acc) {
        let c = &s.real;
        macro_rules! bad {
            ($kind:expr, $($arg:tt)*) => { self.viol(acc, trace, $kind, format!($($arg)*)) };
        }
        let want: Vec<(String, String)> = s.refm.iter().map(|(k, v)| (k.clone(), v.clone())).collect();
        let got = real_content(c);
        acc.calls += 4;
        if got != want {
            let note = if format!("{:?}{:?}", got, want).chars().any(|ch| !ch.is_ascii() && !ch.is_uppercase() && !ch.to_lowercase().eq([ch])) { " [titlecase]" } else { "" };
            bad!("content", "entries {:?}, reference {:?}{}", got, want, note);
        }
        let mut via_ref: Vec<(String, String)> = (&*c).into_iter().map(|(k, v)| (k.to_owned(), v.raw().to_owned())).collect();
        via_ref.sort();
        if via_ref != got {
            bad!("into_iter", "(&checksum).into_iter() differs from iter()");
        }
        let mut algs: Vec<String> = c.algorithms().map(str::to_owned).collect();
        algs.sort();
        if algs != s.refm.keys().cloned().collect::<Vec<_>>() {
            bad!("algorithms", "algorithms() = {:?}, reference {:?}", algs, s.refm.keys().collect::<Vec<_>>());
        }
        for l in &self.lower {
            acc.calls += 4;
            let w = s.refm.get(l).map(String::as_str);
            if c.get_raw(l) != w {
                bad!("get_raw", "get_raw({:?}) = {:?}, reference {:?}", l, c.get_raw(l), w);
            }
            match (c.get_value(l), w) {
                (Some(v), Some(wv)) => {
                    if v.raw() != wv || &*v != wv {
                        bad!("get_value", "get_value({:?}).raw() = {:?}, reference {:?}", l, v.raw(), wv);
                    }
                    let dv = v.decode::<Vec<u8>>();
                    let d2 = v.decode::<[u8; 2]>();
                    if valid_hex(wv) {
                        if dv.as_ref().ok() != hex::decode(wv).ok().as_ref() {
                            bad!("decode", "decode::<Vec<u8>>() of {:?} = {:?}", wv, dv);
                        }
                        if d2.is_ok() != (wv.len() == 4) {
                            bad!("decode-array", "decode::<[u8;2]>() of {:?} = {:?}", wv, d2);
                        }
                    } else if dv.is_ok() || d2.is_ok() {
                        bad!("decode-accepts", "decode of malformed hex {:?} succeeded", wv);
                    }
                },
                (None, None) => {},
                (g, w2) => bad!("get_value-presence", "get_value({:?}) presence {:?}, reference {:?}", l, g.map(|x| x.raw().to_owned()), w2),
            }
            match (c.get::<Vec<u8>>(l), w) {
                (Ok(None), None) => {},
                (Ok(Some(b)), Some(wv)) => {
                    if !valid_hex(wv) || hex::encode(&b) != wv.to_ascii_lowercase() {
                        bad!("get", "get({:?}) = {:?}, stored {:?}", l, b, wv);
                    }
                },
                (Err(_), Some(wv)) => {
                    if valid_hex(wv) {
                        bad!("get-refuses", "get({:?}) fails on well-formed hex {:?}", l, wv);
                    }
                },
                (g, w2) => bad!("get-presence", "get({:?}) = {:?}, reference {:?}", l, g, w2),
            }
        }
        let _ = format!("{:?}", c);
        // text form
        acc.calls += 1;
        let text = match guarded(|| SStr::try_from(c.clone())) {
            Ok(t) => t,
            Err(m) => {
                acc.count("panics");
                let what = if s.refm.is_empty() { "Checksum::default / empty checksum" } else { "checksum" };
                acc.violate(Violation { prop: "C06", kind: "panic".into(), case: json!({"call": format!("SmallString::try_from({what})"), "trace": trace()}), detail: format!("converting a checksum with {} entries to text panicked: {m}", s.refm.len()) });
                return;
            },
        };
        match (text, ref_text(&s.refm)) {
            (Ok(t), Ok(w)) => {
                if t.as_str() != w {
                    bad!("text", "text form {:?}, expected {:?}", t, w);
                }
                if !s.refm.is_empty() {
                    // parses back to the same entries
                    acc.calls += 1;
                    match Checksum::try_from(t.as_str()) {
                        Err(e) => bad!("text-reparse", "text form {:?} does not parse back: {e}", t),
                        Ok(c2) => {
                            let want2: Vec<(String, String)> = s.refm.iter().map(|(k, v)| (k.clone(), v.to_ascii_lowercase())).collect();
                            if real_content(&c2) != want2 {
                                bad!("text-reparse-entries", "text form {:?} parses back to {:?}, expected {:?}", t, real_content(&c2), want2);
                            }
                            for (k, v) in &want2 {
                                match c2.get::<Vec<u8>>(k) {
                                    Ok(Some(b)) if hex::encode(&b) == *v => {},
                                    other => bad!("text-reparse-bytes", "bytes of {:?} after the round trip: {:?}, expected {:?}", k, other, v),
                                }
                            }
                        },
                    }
                }
                acc.sig(&("text", s.refm.len(), t.len().min(8)));
            },
            (Err(_), Err(())) => acc.sig(&("refused", s.refm.len())),
            (Ok(t), Err(())) => bad!("text-accepts", "malformed hex in {:?} but text form {:?} produced", s.refm, t),
            (Err(e), Ok(w)) => bad!("text-refuses", "well-formed entries refused ({e}), expected text {:?}", w),
        }
    }
}

/// Long histories on checksums with more entries than the BFS universe (the hash map inside
/// grows through several resizes): 20 algorithms inserted in three orders, the full state oracle
/// (entries, text form, round trip) after every step, then removed.
pub fn long_histories(acc: &mut Acc) -> Value {
    // 20 synthetic names and the algorithm names in real use (with the spellings that differ only by a
    // dash, a digit suffix or a prefix: `sha-256`/`sha256`/`sha2`, `sha3-256`, `md5`/`md5-sess`)
    let mut algs: Vec<String> = (0..20).map(|i| format!("{}{}", ["sha", "md", "blake", "x-"][i % 4], i)).collect();
    for real in ["sha-256", "sha256", "sha-1", "sha1", "sha2", "sha3-256", "sha-512", "sha512", "md5", "md5-sess", "blake2b", "blake2", "crc32", "sha--1"] {
        algs.push(real.to_owned());
    }
    let mut lower = algs.clone();
    lower.sort();
    let m = CModel { prop: "C12", spellings: algs.clone(), lower, acts: vec![] };
    let n = algs.len();
    let orders: [Vec<usize>; 3] = [(0..n).collect(), (0..n).rev().collect(), (0..n).map(|i| (i * 7) % n).collect()];
    let mut steps = 0u64;
    for (oi, order) in orders.iter().enumerate() {
        let mut st = CState { real: Checksum::default(), refm: BTreeMap::new() };
        let mut history: Vec<Value> = Vec::new();
        let mut acts: Vec<CAct> = Vec::new();
        for (j, i) in order.iter().enumerate() {
            let a = if j % 2 == 0 { algs[*i].clone() } else { algs[*i].to_ascii_uppercase() };
            acts.push(if j % 3 == 0 { CAct::InsertBytes(a, vec![j as u8, 0xAB]) } else { CAct::InsertRaw(a, format!("{:02X}ff", j)) });
        }
        for i in order.iter().rev() {
            acts.push(CAct::Remove(algs[*i].clone()));
        }
        for act in acts {
            history.push(json!(format!("{:?}", act)));
            let tr = || json!({"engine": "checksum-long", "order": oi, "history": history});
            match guarded(|| {
                let nx = m.step(&st, &act, &tr, acc);
                m.check_state(&nx, &tr, acc);
                nx
            }) {
                Ok(nx) => st = nx,
                Err(msg) => {
                    acc.violate(Violation { prop: "C06", kind: "panic".into(), case: tr(), detail: msg });
                    break;
                },
            }
            steps += 1;
        }
    }
    acc.evals += steps;
    acc.nontrivial += steps;
    json!({"engine": "C-long-histories", "algorithms": n, "histories": 3, "steps": steps})
}

/// Raw (unvalidated) hash texts: every Unicode scalar value at the start, in the middle and at the end
/// of a raw value put in with `insert_raw`, then every read accessor of the typed value. None may
/// panic; `decode` succeeds exactly for an even number of hex digits and then returns those bytes;
/// `raw()`, `Deref` and `get_raw` give the text back; the text form is refused unless it is hex.
pub fn raw_value_sweep(acc: &mut Acc) -> Value {
    let a = crate::sweeps::for_all_scalars(|c, acc| {
        for raw in [c.to_string(), format!("a{c}"), format!("0{c}0"), format!("{c}ff"), format!("0x{c}"), format!("ab{c}")] {
            acc.evals += 1;
            acc.calls += 6;
            let case = json!({"engine": "checksum-raw", "raw": raw});
            let want: Option<Vec<u8>> = if raw.len() % 2 == 0 && raw.bytes().all(|b| b.is_ascii_hexdigit()) { Some((0..raw.len() / 2).map(|i| u8::from_str_radix(&raw[2 * i..2 * i + 2], 16).unwrap()).collect()) } else { None };
            let r = guarded(|| {
                let mut ck = Checksum::default();
                ck.insert_raw("Alg", raw.clone());
                if ck.get_raw("alg") != Some(raw.as_str()) {
                    acc.violate(Violation { prop: "C12", kind: "raw-get_raw".into(), case: case.clone(), detail: format!("get_raw gives {:?}", ck.get_raw("alg")) });
                }
                let got: Option<Vec<u8>> = ck.get::<Vec<u8>>("alg").ok().flatten();
                if got != want {
                    acc.violate(Violation { prop: "C12", kind: "raw-decode".into(), case: case.clone(), detail: format!("get::<Vec<u8>> gives {:?}, expected {:?}", got, want) });
                }
                match ck.get_value("alg") {
                    None => acc.violate(Violation { prop: "C12", kind: "raw-get_value".into(), case: case.clone(), detail: "get_value gives None".into() }),
                    Some(v) => {
                        let d: Option<Vec<u8>> = v.decode::<Vec<u8>>().ok();
                        let _ = v.decode::<[u8; 2]>();
                        if v.raw() != raw || &*v != raw.as_str() || d != want {
                            acc.violate(Violation { prop: "C12", kind: "raw-value".into(), case: case.clone(), detail: format!("raw() {:?}, deref {:?}, decode {:?}, expected {:?}", v.raw(), &*v, d, want) });
                        }
                    },
                }
                let entries: Vec<(String, String)> = ck.iter().map(|(a, v)| (a.to_owned(), v.raw().to_owned())).collect();
                if entries != vec![("alg".to_owned(), raw.clone())] {
                    acc.violate(Violation { prop: "C12", kind: "raw-iter".into(), case: case.clone(), detail: format!("iter() gives {:?}", entries) });
                }
                // the text form exists exactly when the raw value is hex
                let text = purl::GenericPurlBuilder::new("t".to_owned(), "n").try_with_typed_qualifier(Some(ck)).ok().and_then(|b| b.parts.qualifiers.get("checksum").map(str::to_owned));
                let want_text = want.as_ref().map(|_| format!("alg:{}", raw.to_ascii_lowercase()));
                if text != want_text {
                    acc.violate(Violation { prop: "C12", kind: "raw-text".into(), case: case.clone(), detail: format!("text form {:?}, expected {:?}", text, want_text) });
                }
                acc.sig(&(want.is_some(), raw.len().min(6)));
            });
            if let Err(m) = r {
                acc.violate(Violation { prop: "C06", kind: "panic".into(), case, detail: format!("typed checksum with the raw value {:?}: {m}", raw) });
            }
            acc.nontrivial += 1;
        }
    });
    let n = a.evals;
    acc.merge(a);
    json!({"engine": "E-sweep", "model": "checksum-raw-values", "scalar_values": crate::sweeps::N_SCALARS, "raw_value_cases": n})
}
