//! C19 — equality, hashing and ordering against the canonical string: all pairs of a pool of
//! values produced by the lenses, the spelling explorer and the builder product.

use std::borrow::Cow;
use std::cmp::Ordering;
use std::collections::hash_map::DefaultHasher;
use std::collections::HashMap;
use std::hash::{Hash, Hasher};

use purl::{GenericPurl, GenericPurlBuilder};
use serde_json::{json, Value};

use crate::common::*;
use crate::lens;
use crate::m_builder::{CVALUES, QVALUES, UNIVERSE};

fn std_hash<T: Hash>(t: &T) -> u64 {
    let mut h = DefaultHasher::new();
    t.hash(&mut h);
    h.finish()
}

pub struct Pool<T: Flavor> {
    pub flavor: &'static str,
    pub values: Vec<(GenericPurl<T>, String, Value)>, // value, canonical string, provenance
    seen: HashMap<u64, u8>,
}

impl<T: Flavor> Pool<T> {
    pub fn new(flavor: &'static str) -> Self {
        Pool { flavor, values: Vec::new(), seen: HashMap::new() }
    }
    /// keep at most two instances per *structure* (the Debug form shows the stored fields, not the
    /// accessor view: two values that the accessors cannot tell apart but that are stored differently
    /// are both kept), so that values reached through different sources are compared with each other
    /// without flooding the pool
    /// derived values follow the same policy as direct ones: at most two instances per stored
    /// structure (Debug form). A derived value that is stored exactly like a direct one adds nothing;
    /// one that is stored differently (a stale hidden field, an unnormalised part) is kept whatever
    /// it prints.
    pub fn add_derived(&mut self, p: GenericPurl<T>, prov: impl FnOnce() -> Value) {
        self.add(p, prov);
    }

    pub fn add(&mut self, p: GenericPurl<T>, prov: impl FnOnce() -> Value) {
        let Ok(o) = guarded(|| h64(&format!("{:?}", p))) else { return };
        let n = self.seen.entry(o).or_insert(0);
        if *n >= 2 {
            return;
        }
        *n += 1;
        // Display panics on an invalid type string; such a value cannot be in a pool (C06/C13 report it)
        let Ok(s) = guarded(|| p.to_string()) else { return };
        self.values.push((p, s, prov()));
    }
}

/// Values reached through a further API sequence from a parsed value (re-built, qualifiers removed
/// one by one / all at once / through the typed accessor, version set and unset): they must be
/// indistinguishable from values that print the same and were obtained directly.
const DERIVATIONS: [&str; 8] = ["rebuild", "without_qualifiers", "without_first_qualifier", "without_last_qualifier", "typed_checksum_none", "version_set_and_unset", "name_long_then_restored", "qualifier_long_then_restored"];

fn derive<T: Flavor>(p: &GenericPurl<T>, op: &str) -> Option<GenericPurl<T>> {
    use purl::qualifiers::well_known::Checksum;
    let b = p.clone().into_builder();
    let keys: Vec<String> = p.qualifiers().iter().map(|(k, _)| k.as_str().to_owned()).collect();
    let b = match op {
        "rebuild" => b,
        "without_qualifiers" => {
            if keys.is_empty() {
                return None;
            }
            b.without_qualifiers()
        },
        "without_first_qualifier" => b.without_qualifier(keys.first()?.as_str()),
        "without_last_qualifier" => b.without_qualifier(keys.last()?.to_ascii_uppercase().as_str()),
        "typed_checksum_none" => {
            if !keys.iter().any(|k| k == "checksum") {
                return None;
            }
            b.try_with_typed_qualifier(None::<Checksum>).ok()?
        },
        "version_set_and_unset" => {
            if p.version().is_some() {
                return None;
            }
            b.with_version("9").without_version()
        },
        // a field grown beyond the 23-byte inline buffer and then set back to what it was
        "name_long_then_restored" => {
            let name = p.name().to_owned();
            b.with_name("a-name-that-is-much-longer-than-the-inline-buffer").with_name(name)
        },
        "qualifier_long_then_restored" => {
            let (k, v) = p.qualifiers().iter().next().map(|(k, v)| (k.as_str().to_owned(), v.to_owned()))?;
            let b = b.with_qualifier(k.to_ascii_uppercase(), "a-value-that-is-much-longer-than-the-inline-buffer").ok()?;
            b.with_qualifier(k, v).ok()?
        },
        _ => return None,
    };
    guarded(|| b.build().ok()).ok().flatten()
}

fn parse_lens_into<T: PFlavor>(pool: &mut Pool<T>, names: &[(&str, usize)], prefixes: Option<Vec<&'static str>>) {
    for (name, n) in names {
        let mut l = lens::lens(name);
        if let Some(p) = &prefixes {
            l.prefixes = p.clone();
        }
        // sequential enumeration (pools are small)
        fn rec<T: PFlavor>(l: &lens::Lens, buf: &mut String, d: usize, n: usize, pool: &mut Pool<T>) {
            // a panicking parse is C06's business; it cannot contribute a value
            if let Ok(Ok(p)) = guarded(|| T::parse(buf)) {
                let src = buf.clone();
                if !p.qualifiers().is_empty() {
                    for op in DERIVATIONS {
                        if let Some(d) = derive(&p, op) {
                            pool.add_derived(d, || json!({"parsed": src, "then": op}));
                        }
                    }
                }
                pool.add(p, || json!({"parsed": src}));
            }
            if d == n {
                return;
            }
            let len = buf.len();
            for t in &l.alphabet {
                buf.push_str(t);
                rec(l, buf, d + 1, n, pool);
                buf.truncate(len);
            }
        }
        for p in l.prefixes.clone() {
            let mut buf = String::from(p);
            rec(&l, &mut buf, 0, *n, pool);
        }
    }
}

fn build_product_into<T: Flavor>(pool: &mut Pool<T>, types: &[&str], mk: impl Fn(&str, usize) -> Option<T>, tier: Tier) {
    let u = UNIVERSE.len();
    let mut qsets: Vec<Vec<(&str, &str)>> = vec![vec![]];
    for v in QVALUES {
        qsets.push(vec![("k", v)]);
    }
    qsets.push(vec![("checksum", CVALUES[0])]);
    qsets.push(vec![("checksum", CVALUES[1])]);
    qsets.push(vec![("k", "a"), ("l", "c")]);
    qsets.push(vec![("k", "a&l=c")]);
    qsets.push(vec![("k", "a=b"), ("l", "c")]);
    let def = [0usize, 1, 0, 0];
    let mut tuples: Vec<[usize; 4]> = vec![def];
    for f1 in 0..4 {
        for a in 0..u {
            let mut t = def;
            t[f1] = a;
            tuples.push(t);
            if tier == Tier::Thorough {
                for f2 in (f1 + 1)..4 {
                    for b in 0..u {
                        let mut t2 = t;
                        t2[f2] = b;
                        tuples.push(t2);
                    }
                }
            }
        }
    }
    let mut i = 0usize;
    for ty in types {
        for t in &tuples {
            for qs in &qsets {
                i += 1;
                let Some(pt) = mk(ty, i) else { continue };
                let mut b = GenericPurlBuilder::new(pt, UNIVERSE[t[1]]).with_namespace(UNIVERSE[t[0]]).with_version(UNIVERSE[t[2]]).with_subpath(UNIVERSE[t[3]]);
                for (k, v) in qs {
                    b = b.with_qualifier(*k, *v).expect("valid key");
                }
                if let Ok(Ok(p)) = guarded(|| b.build()) {
                    pool.add(p, || json!({"built": {"ty": ty, "ns": UNIVERSE[t[0]], "name": UNIVERSE[t[1]], "version": UNIVERSE[t[2]], "subpath": UNIVERSE[t[3]], "quals": qs}}));
                }
            }
        }
    }
}

/// Values that a "semantic" comparison (numeric versions, case folding, Unicode normalisation,
/// trimming, path normalisation, repeated decoding) would identify although their canonical strings
/// differ — and a few that really are one value. Each of them in each field, the other fields fixed.
pub const NEAR: [&str; 58] = [
    "1", "01", "1.0", "1.00", "+1", "1.", "1.10", "1.9", "1.1x", "1.1", "1e1", "10", "1.01", "1.1.0", "v1", "V1", "1-", "\u{661}", "\u{FF11}", "a", "A", "\u{FF41}", "é", "e\u{301}", "É", " a", "a ", "a\t", "a\u{0}", "a\u{200B}",
    "a/", "/a", "a//b", "a/b", "a/./b", "a/../b", "a\\b", "a%2Fb", "a%2fb", "%61", "%2561", "-a", "a-", "a_b", "a-b", "a.b", "ß", "ss", "SS", "ǆ", "ǅ", "Ǆ", "ﬁ", "fi", "\u{212A}", "k", "K", "a+b",
];

/// The specification's own vocabulary of URLs: default registries of the known types (with the
/// variations people write), VCS and download URL shapes.
pub const SPEC_URLS: [&str; 24] = [
    "https://crates.io", "https://crates.io/", "https://index.crates.io", "https://rubygems.org", "https://rubygems.org/", "https://repo.maven.apache.org/maven2", "https://repo.maven.apache.org/maven2/",
    "https://repo1.maven.org/maven2", "https://registry.npmjs.org", "https://registry.npmjs.org/", "http://registry.npmjs.org", "https://www.nuget.org", "https://www.nuget.org/", "https://api.nuget.org/v3/index.json",
    "https://pypi.org", "https://pypi.org/", "https://pypi.org/simple", "https://pypi.python.org/pypi", "https://proxy.golang.org", "https://hub.docker.com", "git+https://github.com/a/b.git@abc", "https://github.com/a/b",
    "https://example.com/a.tar.gz", "registry.npmjs.org",
];

/// Known type names as plain type strings with a `repository_url` from the specification's vocabulary
/// (and without one): values that only the code might treat specially.
fn build_spec_urls_into<T: Flavor>(pool: &mut Pool<T>, types: &[&str], mk: impl Fn(&str, usize) -> Option<T>) {
    let mut i = 0usize;
    for ty in types {
        for key in ["repository_url", "download_url"] {
            for v in SPEC_URLS.iter().map(|s| Some(*s)).chain(std::iter::once(None)) {
                i += 1;
                let Some(pt) = mk(ty, i) else { continue };
                let ns = if *ty == "maven" { "g" } else { "" };
                let mut b = GenericPurlBuilder::new(pt, "n").with_namespace(ns).with_version("1");
                let mut qs: Vec<(&str, &str)> = Vec::new();
                if let Some(v) = v {
                    b = b.with_qualifier(key, v).expect("valid key");
                    qs.push((key, v));
                }
                if let Ok(Ok(p)) = guarded(|| b.build()) {
                    pool.add(p, || json!({"built": {"ty": ty, "ns": ns, "name": "n", "version": "1", "subpath": "", "quals": qs}}));
                }
            }
        }
    }
}

fn build_near_into<T: Flavor>(pool: &mut Pool<T>, types: &[&str], mk: impl Fn(&str, usize) -> Option<T>) {
    let mut i = 0usize;
    for ty in types {
        for field in 0..5usize {
            for v in NEAR {
                i += 1;
                let Some(pt) = mk(ty, i) else { continue };
                let mut f = ["", "n", "", ""];
                let mut qs: Vec<(&str, &str)> = Vec::new();
                if field < 4 {
                    f[field] = v;
                } else {
                    qs.push(("k", v));
                }
                // maven needs a namespace
                if *ty == "maven" && field != 0 {
                    f[0] = "g";
                }
                let mut b = GenericPurlBuilder::new(pt, f[1]).with_namespace(f[0]).with_version(f[2]).with_subpath(f[3]);
                for (k, v) in &qs {
                    b = b.with_qualifier(*k, *v).expect("valid key");
                }
                if let Ok(Ok(p)) = guarded(|| b.build()) {
                    pool.add(p, || json!({"built": {"ty": ty, "ns": f[0], "name": f[1], "version": f[2], "subpath": f[3], "quals": qs}}));
                }
            }
        }
    }
}

/// All-pairs oracle on one pool.
pub fn check_pool<T: Flavor + Sync + Send>(pool: &Pool<T>, acc: &mut Acc) -> Value {
    let n = pool.values.len();
    // sort by Ord
    // (a hand-written merge sort: std's sort may panic when the comparison is not a total order,
    // which is exactly what a broken implementation provides; the all-pairs pass below then names the pair)
    fn merge_sort(v: Vec<usize>, less_eq: &dyn Fn(usize, usize) -> bool) -> Vec<usize> {
        if v.len() <= 1 {
            return v;
        }
        let right = v[v.len() / 2..].to_vec();
        let left = v[..v.len() / 2].to_vec();
        let (l, r) = (merge_sort(left, less_eq), merge_sort(right, less_eq));
        let (mut i, mut j, mut out) = (0, 0, Vec::with_capacity(l.len() + r.len()));
        while i < l.len() && j < r.len() {
            if less_eq(l[i], r[j]) {
                out.push(l[i]);
                i += 1;
            } else {
                out.push(r[j]);
                j += 1;
            }
        }
        out.extend_from_slice(&l[i..]);
        out.extend_from_slice(&r[j..]);
        out
    }
    let idx: Vec<usize> = merge_sort((0..n).collect(), &|a, b| pool.values[a].0.cmp(&pool.values[b].0) != std::cmp::Ordering::Greater);
    let vals: Vec<&(GenericPurl<T>, String, Value)> = idx.iter().map(|i| &pool.values[*i]).collect();
    let hashes: Vec<u64> = vals.iter().map(|v| std_hash(&v.0)).collect();
    let groups: std::collections::BTreeSet<&str> = vals.iter().map(|v| v.1.as_str()).collect();
    let flavor = pool.flavor;
    let a = par_items(n, threads(), |i, acc| {
        let (pi, si, provi) = vals[i];
        for j in i..n {
            let (pj, sj, provj) = vals[j];
            acc.evals += 1;
            acc.calls += 4;
            let same = si == sj;
            let eq = pi == pj;
            let c = pi.cmp(pj);
            let rc = pj.cmp(pi);
            let case = || json!({"engine": "pool-pair", "flavor": flavor, "a": provi, "b": provj});
            let amp = if same != eq { " [qualifier value contains '&']" } else { "" };
            if eq != same {
                acc.violate(Violation { prop: "C19", kind: "string-eq-disagree".into(), case: case(), detail: format!("== is {eq} but the canonical strings are {:?} and {:?}{}", si, sj, if si.contains('&') || sj.contains('&') { amp } else { "" }) });
            }
            if (pj == pi) != eq || (pi != pj) == eq {
                acc.violate(Violation { prop: "C19", kind: "eq-not-symmetric".into(), case: case(), detail: "== / != are not symmetric or not complementary".into() });
            }
            if eq && hashes[i] != hashes[j] {
                acc.violate(Violation { prop: "C19", kind: "hash".into(), case: case(), detail: format!("equal PURLs {:?} hash differently", si) });
            }
            if (c == Ordering::Equal) != eq {
                acc.violate(Violation { prop: "C19", kind: "cmp-equal-vs-eq".into(), case: case(), detail: format!("cmp = {:?} but == is {eq} for {:?} / {:?}", c, si, sj) });
            }
            if rc != c.reverse() {
                acc.violate(Violation { prop: "C19", kind: "cmp-antisymmetry".into(), case: case(), detail: format!("cmp(a,b) = {:?}, cmp(b,a) = {:?}", c, rc) });
            }
            // the pool is sorted by cmp: i <= j must hold for every pair, which makes the relation a
            // total preorder on the pool (transitivity and totality) whose kernel is ==
            if c == Ordering::Greater {
                acc.violate(Violation { prop: "C19", kind: "cmp-not-transitive".into(), case: case(), detail: format!("sorted by cmp, yet element {i} > element {j}: {:?} / {:?}", si, sj) });
            }
            if pi.partial_cmp(pj) != Some(c) {
                acc.violate(Violation { prop: "C19", kind: "partial-cmp".into(), case: case(), detail: "partial_cmp disagrees with cmp".into() });
            }
            if same && i != j {
                acc.count("pairs_with_identical_canonical_string");
            }
        }
        acc.sig(&(si.len().min(24), si.contains('?'), si.contains('#'), si.contains('@')));
    });
    let pairs = a.evals;
    acc.merge(a);
    acc.nontrivial += groups.len() as u64;
    // hash-set / btree-set de-duplication agree with de-duplication by string
    let hs: std::collections::HashSet<&GenericPurl<T>> = vals.iter().map(|v| &v.0).collect();
    let bs: std::collections::BTreeSet<&GenericPurl<T>> = vals.iter().map(|v| &v.0).collect();
    if hs.len() != groups.len() || bs.len() != groups.len() {
        acc.violate(Violation {
            prop: "C19",
            kind: "dedup-disagrees".into(),
            case: json!({"engine": "pool", "flavor": flavor}),
            detail: format!("{} distinct canonical strings, {} distinct by hash set, {} distinct by ordered set", groups.len(), hs.len(), bs.len()),
        });
    }
    for k in [0, n / 2] {
        if k < n {
            acc.samples.push(json!({"flavor": flavor, "canonical": vals[k].1, "source": vals[k].2}));
        }
    }
    json!({"flavor": flavor, "pool": n, "distinct_canonical_strings": groups.len(), "pairs_examined": pairs})
}

/// QualifierKey: the hand-written comparisons agree with the derived ones on all key pairs.
pub fn check_keys(acc: &mut Acc) -> Value {
    let keys = ["a", "A", "ab", "Ab", "aB", "b", "B", "b-1", "B-1", "c", "C", "b.", "b_", "z9", "Z9", "checksum"];
    let mut qs: Vec<purl::Qualifiers> = Vec::new();
    // several collections so that differently-cased insertions of the same key are compared
    for off in 0..2 {
        let mut q = purl::Qualifiers::default();
        for (i, k) in keys.iter().enumerate() {
            if i % 2 == off {
                let _ = q.insert(*k, "v");
            }
        }
        qs.push(q);
    }
    let all: Vec<&purl::qualifiers::QualifierKey> = qs.iter().flat_map(|q| q.iter().map(|(k, _)| k)).collect();
    let mut n = 0u64;
    for a in &all {
        for b in &all {
            n += 1;
            acc.calls += 4;
            let case = || json!({"engine": "key-pair", "a": a.as_str(), "b": b.as_str()});
            let derived = (*a).cmp(*b);
            if derived != a.as_str().cmp(b.as_str()) {
                acc.violate(Violation { prop: "C19", kind: "key-cmp".into(), case: case(), detail: "derived Ord differs from the order of the lower-case strings".into() });
            }
            if (*a == *b) != (derived == Ordering::Equal) || PartialOrd::partial_cmp(*a, *b) != Some(derived) {
                acc.violate(Violation { prop: "C19", kind: "key-eq-vs-cmp".into(), case: case(), detail: format!("hand-written ==/partial_cmp disagree with derived cmp {:?}", derived) });
            }
            if *a == *b && std_hash(*a) != std_hash(*b) {
                acc.violate(Violation { prop: "C19", kind: "key-hash".into(), case: case(), detail: "equal keys hash differently".into() });
            }
            // comparisons with plain strings are case-insensitive
            for s in keys {
                if (**a == *s) != (a.as_str() == s.to_ascii_lowercase()) {
                    acc.violate(Violation { prop: "C19", kind: "key-eq-str".into(), case: case(), detail: format!("key {:?} == {:?} is {}", a.as_str(), s, **a == *s) });
                }
            }
        }
    }
    acc.evals += n;
    json!({"engine": "key-pairs", "keys": all.len(), "pairs": n})
}

pub fn run(tier: Tier) -> (Acc, Vec<Value>) {
    let mut acc = Acc::new();
    let mut reps = Vec::new();
    let dn = |q: usize, t: usize| if tier == Tier::Quick { q } else { t };
    // String
    {
        let mut pool: Pool<String> = Pool::new("String");
        parse_lens_into(&mut pool, &[("A1a", dn(3, 4)), ("A1b", dn(3, 4)), ("A5b", dn(3, 4)), ("A6", dn(3, 4)), ("A3", dn(3, 4)), ("A10", dn(2, 3)), ("A5a", dn(4, 5)), ("A17", dn(2, 3))], None);
        build_product_into(&mut pool, &["t", "T.1+x-"], |ty, _| Some(ty.to_owned()), tier);
        build_near_into(&mut pool, &["t"], |ty, _| Some(ty.to_owned()));
        build_spec_urls_into(&mut pool, &["cargo", "gem", "golang", "maven", "npm", "nuget", "pypi", "NPM"], |ty, _| Some(ty.to_owned()));
        // keys and types at the edge of validity (accepted only by a broken implementation; if they are
        // accepted, the resulting values must still obey C19, reflexivity included)
        for s in ["pkg:t/n?\u{212A}=v", "pkg:t/n?k=v", "pkg:t/n?K=v", "pkg:t/n?é=v", "pkg:t/n?É=v", "pkg:t/n?\u{130}=v", "pkg:\u{212A}/n", "pkg:K/n", "pkg:k/n"] {
            if let Ok(Ok(p)) = guarded(|| <String as PFlavor>::parse(s)) {
                pool.add(p, || json!({"parsed": s}));
            }
        }
        // a value whose qualifier came in through a user-defined typed accessor with a mixed-case KEY
        if let Ok(Ok(p)) = guarded(|| GenericPurlBuilder::new("t".to_owned(), "n").with_typed_qualifier(Some(BuildTag("x"))).build()) {
            pool.add(p, || json!({"typed_custom": "x"}));
        }
        for s in ["pkg:t/n?build_tag=x", "pkg:t/n?Build_Tag=x"] {
            if let Ok(Ok(p)) = guarded(|| <String as PFlavor>::parse(s)) {
                pool.add(p, || json!({"parsed": s}));
            }
        }
        reps.push(check_pool(&pool, &mut acc));
    }
    #[cfg(feature = "smart")]
    {
        let mut pool: Pool<purl::SmallString> = Pool::new("SmallString");
        parse_lens_into(&mut pool, &[("A1b", dn(3, 4)), ("A5b", dn(3, 4))], None);
        build_product_into(&mut pool, &["t", "a-rather-long-type-name-that-does-not-fit-inline"], |ty, _| Some(purl::SmallString::from(ty)), Tier::Quick);
        build_near_into(&mut pool, &["t"], |ty, _| Some(purl::SmallString::from(ty)));
        reps.push(check_pool(&pool, &mut acc));
    }
    {
        // Cow: borrowed and owned forms of the same type must be indistinguishable
        let mut pool: Pool<Cow<'static, str>> = Pool::new("Cow");
        build_product_into(&mut pool, &["t", "T"], |ty, i| Some(if i % 2 == 0 { Cow::Borrowed(crate::builders::intern(ty)) } else { Cow::Owned(ty.to_owned()) }), Tier::Quick);
        build_product_into(&mut pool, &["t", "T"], |ty, i| Some(if i % 2 == 1 { Cow::Borrowed(crate::builders::intern(ty)) } else { Cow::Owned(ty.to_owned()) }), Tier::Quick);
        build_near_into(&mut pool, &["t"], |ty, i| Some(if i % 2 == 1 { Cow::Borrowed(crate::builders::intern(ty)) } else { Cow::Owned(ty.to_owned()) }));
        reps.push(check_pool(&pool, &mut acc));
    }
    #[cfg(feature = "typed")]
    {
        let mut pool: Pool<purl::PackageType> = Pool::new("PackageType");
        parse_lens_into(&mut pool, &[("A7", dn(3, 4))], None);
        parse_lens_into(&mut pool, &[("A1b", dn(3, 4))], Some(vec!["pkg:npm/", "pkg:maven/x/", "pkg:pypi/"]));
        parse_lens_into(&mut pool, &[("A5b", dn(3, 4))], Some(vec!["pkg:npm/n?", "pkg:gem/n?"]));
        build_product_into(&mut pool, &["npm", "pypi", "maven"], |ty, _| <purl::PackageType as Flavor>::mk(ty), Tier::Quick);
        build_near_into(&mut pool, &["npm", "pypi", "nuget", "maven", "golang"], |ty, _| <purl::PackageType as Flavor>::mk(ty));
        build_spec_urls_into(&mut pool, &["cargo", "gem", "golang", "maven", "npm", "nuget", "pypi"], |ty, _| <purl::PackageType as Flavor>::mk(ty));
        reps.push(check_pool(&pool, &mut acc));
    }
    reps.push(check_keys(&mut acc));
    (acc, reps)
}

/// replay of one pair: rebuild both values from their provenance
pub fn replay_pair(case: &Value) -> Option<Vec<Violation>> {
    fn remake<T: PFlavor>(prov: &Value, mk: &dyn Fn(&str) -> Option<T>) -> Option<GenericPurl<T>> {
        if let Some(s) = prov["parsed"].as_str() {
            let p = T::parse(s).ok()?;
            return match prov["then"].as_str() {
                Some(op) => derive(&p, op),
                None => Some(p),
            };
        }
        if let Some(v) = prov["typed_custom"].as_str() {
            let v: &'static str = crate::builders::intern(v);
            return GenericPurlBuilder::new(mk("t")?, "n").with_typed_qualifier(Some(BuildTag(v))).build().ok();
        }
        let b = &prov["built"];
        let mut gb = GenericPurlBuilder::new(mk(b["ty"].as_str()?)?, b["name"].as_str()?).with_namespace(b["ns"].as_str()?).with_version(b["version"].as_str()?).with_subpath(b["subpath"].as_str()?);
        for q in b["quals"].as_array()? {
            gb = gb.with_qualifier(q[0].as_str()?, q[1].as_str()?).ok()?;
        }
        gb.build().ok()
    }
    fn go<T: PFlavor + Send + Sync>(flavor: &'static str, case: &Value, mk: &dyn Fn(&str) -> Option<T>) -> Option<Vec<Violation>> {
        let mut pool: Pool<T> = Pool::new(flavor);
        let a = remake::<T>(&case["a"], mk)?;
        let b = remake::<T>(&case["b"], mk)?;
        let (sa, sb) = (a.to_string(), b.to_string());
        pool.values.push((a, sa, case["a"].clone()));
        pool.values.push((b, sb, case["b"].clone()));
        let mut acc = Acc::new();
        check_pool(&pool, &mut acc);
        Some(acc.violations)
    }
    match case["flavor"].as_str()? {
        "String" => go::<String>("String", case, &|t| Some(t.to_owned())),
        #[cfg(feature = "smart")]
        "SmallString" => go::<purl::SmallString>("SmallString", case, &|t| Some(purl::SmallString::from(t))),
        #[cfg(feature = "typed")]
        "PackageType" => go::<purl::PackageType>("PackageType", case, &|t| <purl::PackageType as Flavor>::mk(t)),
        _ => None,
    }
}
