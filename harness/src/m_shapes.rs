//! C14 — a parameterised family of user-supplied package types (PurlShape + FromStr programs) x
//! inputs: call protocol, error propagation, post-hook validation.

use std::borrow::Cow;
use std::cell::RefCell;
use std::collections::{BTreeMap, BTreeSet};
use std::str::FromStr;

use purl::{GenericPurl, GenericPurlBuilder, ParseError, PurlParts, PurlShape};
use serde_json::{json, Value};

use crate::common::*;
use crate::lens;
use crate::monitors::m04;
use crate::refmodel::{self as R, Mode};

#[derive(Clone, Copy, Debug, PartialEq, Eq, Hash, PartialOrd, Ord)]
pub enum Prim {
    Nop,
    ClearName,
    SetName,
    SetNsSlashes,
    ClearNs,
    SetVersion,
    SetSubpathDots,
    InsertEmptyQual,
    InsertQual,
    InsertAmpQual,
    EmptyFirstValue,
    RemoveQualK,
    ClearQuals,
    ChecksumCanonical,
    ChecksumNonCanonical,
    ChecksumMalformed,
    ChecksumEmpty,
    /// one algorithm twice, spelled identically, otherwise canonical (lower case, sorted, even hex)
    ChecksumDup,
    /// one algorithm twice in different letter case
    ChecksumDupCase,
    ChecksumOddHex,
    /// lower case and well-formed but not sorted
    ChecksumUnsorted,
    /// an entry appended to whatever checksum is there (or a fresh one): repeats `a` if present
    ChecksumAppendA,
    /// typed insert of a well-known key with an underscore (a sibling key with a letter at that place
    /// may be present: `filename` next to `file_name`)
    TypedFileName,
    /// entry("Repository_URL").or_insert("d")
    EntryRepoOrInsert,
    /// remove("FILE_NAME")
    RemoveFileName,
}

pub const PRIMS: [Prim; 25] = [
    Prim::Nop,
    Prim::ClearName,
    Prim::SetName,
    Prim::SetNsSlashes,
    Prim::ClearNs,
    Prim::SetVersion,
    Prim::SetSubpathDots,
    Prim::InsertEmptyQual,
    Prim::InsertQual,
    Prim::InsertAmpQual,
    Prim::EmptyFirstValue,
    Prim::RemoveQualK,
    Prim::ClearQuals,
    Prim::ChecksumCanonical,
    Prim::ChecksumNonCanonical,
    Prim::ChecksumMalformed,
    Prim::ChecksumEmpty,
    Prim::ChecksumDup,
    Prim::ChecksumDupCase,
    Prim::ChecksumOddHex,
    Prim::ChecksumUnsorted,
    Prim::ChecksumAppendA,
    Prim::TypedFileName,
    Prim::EntryRepoOrInsert,
    Prim::RemoveFileName,
];

#[derive(Clone, Debug, Default, PartialEq, Eq, Hash, PartialOrd, Ord)]
pub struct Program {
    /// None: the conversion succeeds; Some(i): it fails with error #i
    pub conv_fail: Option<u8>,
    pub hook: Vec<Prim>,
    /// None: the hook returns Ok; Some(j): it fails with error #j (after applying its edits)
    pub hook_fail: Option<u8>,
}

#[derive(Clone, Debug, PartialEq)]
pub enum Event {
    Conv(String),
    Finish,
}

thread_local! {
    static PROGRAM: RefCell<Program> = RefCell::new(Program::default());
    static LOG: RefCell<Vec<Event>> = const { RefCell::new(Vec::new()) };
}

#[derive(Debug)]
pub enum MyErr {
    Parse(ParseError),
    Conv(u8),
    Hook(u8),
}
impl From<ParseError> for MyErr {
    fn from(e: ParseError) -> Self {
        MyErr::Parse(e)
    }
}

#[derive(Clone, Debug, PartialEq, Eq, Hash, PartialOrd, Ord)]
pub struct Scripted {
    ty: String,
}

impl FromStr for Scripted {
    type Err = MyErr;
    fn from_str(s: &str) -> Result<Self, MyErr> {
        LOG.with(|l| l.borrow_mut().push(Event::Conv(s.to_owned())));
        match PROGRAM.with(|p| p.borrow().conv_fail) {
            Some(i) => Err(MyErr::Conv(i)),
            None => Ok(Scripted { ty: s.to_ascii_lowercase() }),
        }
    }
}

fn apply_real(p: Prim, parts: &mut PurlParts) {
    match p {
        Prim::Nop => {},
        Prim::ClearName => parts.name = "".into(),
        Prim::SetName => parts.name = "Hooked".into(),
        Prim::SetNsSlashes => parts.namespace = "a//b".into(),
        Prim::ClearNs => parts.namespace = "".into(),
        Prim::SetVersion => parts.version = "9@?".into(),
        Prim::SetSubpathDots => parts.subpath = "../s".into(),
        Prim::InsertEmptyQual => {
            let _ = parts.qualifiers.insert("e", "");
        },
        Prim::InsertQual => {
            let _ = parts.qualifiers.insert("H", "v");
        },
        Prim::InsertAmpQual => {
            let _ = parts.qualifiers.insert("h", "a&b=c");
        },
        Prim::EmptyFirstValue => {
            if let Some((_, v)) = parts.qualifiers.iter_mut().next() {
                *v = "".into();
            }
        },
        Prim::RemoveQualK => {
            parts.qualifiers.remove("K");
        },
        Prim::ClearQuals => parts.qualifiers.clear(),
        Prim::ChecksumCanonical => {
            let _ = parts.qualifiers.insert("checksum", "a:00");
        },
        Prim::ChecksumNonCanonical => {
            let _ = parts.qualifiers.insert("CHECKSUM", "B:FF,a:0A");
        },
        Prim::ChecksumMalformed => {
            let _ = parts.qualifiers.insert("checksum", "zz");
        },
        Prim::ChecksumEmpty => {
            let _ = parts.qualifiers.insert("Checksum", "");
        },
        Prim::ChecksumDup => {
            let _ = parts.qualifiers.insert("checksum", "a:00,a:11");
        },
        Prim::ChecksumDupCase => {
            let _ = parts.qualifiers.insert("checksum", "a:00,A:11");
        },
        Prim::ChecksumOddHex => {
            let _ = parts.qualifiers.insert("checksum", "a:000");
        },
        Prim::ChecksumUnsorted => {
            let _ = parts.qualifiers.insert("checksum", "b:00,a:11");
        },
        Prim::ChecksumAppendA => {
            let old = parts.qualifiers.get("checksum").map(str::to_owned).unwrap_or_default();
            let new = if old.is_empty() { "a:22".to_owned() } else { format!("{old},a:22") };
            let _ = parts.qualifiers.insert("checksum", new.as_str());
        },
        Prim::TypedFileName => parts.qualifiers.insert_typed(purl::qualifiers::well_known::FileName::from("new.tgz")),
        Prim::EntryRepoOrInsert => {
            if let Ok(e) = parts.qualifiers.entry("Repository_URL") {
                e.or_insert("d");
            }
        },
        Prim::RemoveFileName => {
            parts.qualifiers.remove("FILE_NAME");
        },
    }
}

#[derive(Clone, Debug, Default, PartialEq, Eq, Hash, PartialOrd, Ord)]
pub struct RefParts {
    pub ns: String,
    pub name: String,
    pub version: String,
    pub quals: BTreeMap<String, String>,
    pub subpath: String,
}

fn apply_ref(p: Prim, r: &mut RefParts) {
    match p {
        Prim::Nop => {},
        Prim::ClearName => r.name.clear(),
        Prim::SetName => r.name = "Hooked".into(),
        Prim::SetNsSlashes => r.ns = "a//b".into(),
        Prim::ClearNs => r.ns.clear(),
        Prim::SetVersion => r.version = "9@?".into(),
        Prim::SetSubpathDots => r.subpath = "../s".into(),
        Prim::InsertEmptyQual => {
            r.quals.insert("e".into(), "".into());
        },
        Prim::InsertQual => {
            r.quals.insert("h".into(), "v".into());
        },
        Prim::InsertAmpQual => {
            r.quals.insert("h".into(), "a&b=c".into());
        },
        Prim::EmptyFirstValue => {
            if let Some(k) = r.quals.keys().next().cloned() {
                r.quals.insert(k, "".into());
            }
        },
        Prim::RemoveQualK => {
            r.quals.remove("k");
        },
        Prim::ClearQuals => r.quals.clear(),
        Prim::ChecksumCanonical => {
            r.quals.insert("checksum".into(), "a:00".into());
        },
        Prim::ChecksumNonCanonical => {
            r.quals.insert("checksum".into(), "B:FF,a:0A".into());
        },
        Prim::ChecksumMalformed => {
            r.quals.insert("checksum".into(), "zz".into());
        },
        Prim::ChecksumEmpty => {
            r.quals.insert("checksum".into(), "".into());
        },
        Prim::ChecksumDup => {
            r.quals.insert("checksum".into(), "a:00,a:11".into());
        },
        Prim::ChecksumDupCase => {
            r.quals.insert("checksum".into(), "a:00,A:11".into());
        },
        Prim::ChecksumOddHex => {
            r.quals.insert("checksum".into(), "a:000".into());
        },
        Prim::ChecksumUnsorted => {
            r.quals.insert("checksum".into(), "b:00,a:11".into());
        },
        Prim::ChecksumAppendA => {
            let old = r.quals.get("checksum").cloned().unwrap_or_default();
            let new = if old.is_empty() { "a:22".to_owned() } else { format!("{old},a:22") };
            r.quals.insert("checksum".into(), new);
        },
        Prim::TypedFileName => {
            r.quals.insert("file_name".into(), "new.tgz".into());
        },
        Prim::EntryRepoOrInsert => {
            r.quals.entry("repository_url".into()).or_insert_with(|| "d".into());
        },
        Prim::RemoveFileName => {
            r.quals.remove("file_name");
        },
    }
}

impl PurlShape for Scripted {
    type Error = MyErr;
    fn package_type(&self) -> Cow<str> {
        Cow::Borrowed(&self.ty)
    }
    fn finish(&mut self, parts: &mut PurlParts) -> Result<(), MyErr> {
        LOG.with(|l| l.borrow_mut().push(Event::Finish));
        let prog = PROGRAM.with(|p| p.borrow().clone());
        for p in &prog.hook {
            apply_real(*p, parts);
        }
        match prog.hook_fail {
            Some(j) => Err(MyErr::Hook(j)),
            None => Ok(()),
        }
    }
}

/// What must come out after the hook has produced `r` and returned Ok.
fn post_hook(ty: &str, r: &RefParts) -> Result<Obs, ErrClass> {
    if r.name.is_empty() {
        return Err(ErrClass::NoName);
    }
    let mut quals: Vec<(String, String)> = r.quals.iter().filter(|(_, v)| !v.is_empty()).map(|(k, v)| (k.clone(), v.clone())).collect();
    for (k, v) in quals.iter_mut() {
        if k == "checksum" {
            match R::checksum_canonical(v) {
                Some(c) => *v = c,
                None => return Err(ErrClass::Qualifier),
            }
        }
    }
    let opt = |s: &str| if s.is_empty() { None } else { Some(s.to_owned()) };
    Ok(Obs { ty: ty.to_owned(), ns: opt(&r.ns), name: r.name.clone(), version: opt(&r.version), quals, subpath: opt(&r.subpath) })
}

pub fn programs(tier: Tier) -> Vec<Program> {
    let mut hooks: Vec<Vec<Prim>> = vec![vec![]];
    for a in PRIMS {
        if a != Prim::Nop {
            hooks.push(vec![a]);
        }
    }
    let two = match tier {
        Tier::Quick => false,
        Tier::Thorough => true,
    };
    // quick: all single primitives and the pairs that start or end with a primitive touching name or qualifiers checks
    for a in PRIMS {
        for b in PRIMS {
            if a == Prim::Nop || b == Prim::Nop {
                continue;
            }
            let key = |p: Prim| matches!(p, Prim::ClearName | Prim::InsertEmptyQual | Prim::ChecksumNonCanonical | Prim::ChecksumMalformed | Prim::ChecksumEmpty | Prim::EmptyFirstValue | Prim::ChecksumCanonical | Prim::ChecksumAppendA);
            if two || (key(a) && key(b)) {
                hooks.push(vec![a, b]);
            }
        }
    }
    let mut out = Vec::new();
    for h in &hooks {
        for hf in [None, Some(0u8), Some(1u8)] {
            out.push(Program { conv_fail: None, hook: h.clone(), hook_fail: hf });
        }
    }
    for cf in [Some(0u8), Some(1u8)] {
        for h in [vec![], vec![Prim::SetName], vec![Prim::ClearName]] {
            out.push(Program { conv_fail: cf, hook: h, hook_fail: None });
        }
    }
    out
}

fn viol(acc: &mut Acc, case: &Value, kind: &str, detail: String) {
    acc.violate(Violation { prop: "C14", kind: kind.into(), case: case.clone(), detail });
}

fn describe(r: &Result<GenericPurl<Scripted>, MyErr>) -> String {
    match r {
        Ok(p) => format!("Ok({:?})", observe(p)),
        Err(e) => format!("Err({:?})", e),
    }
}

/// One (program, input string) execution with all oracles. `states` collects the distinct
/// reference records reached, `acc.counters["transitions"]` the protocol steps executed.
pub fn run_parse_case(prog: &Program, s: &str, states: &mut BTreeSet<u64>, acc: &mut Acc) {
    acc.evals += 1;
    acc.calls += 1;
    let case = json!({"engine": "shape-parse", "program": prog_json(prog), "input": s});
    PROGRAM.with(|p| *p.borrow_mut() = prog.clone());
    LOG.with(|l| l.borrow_mut().clear());
    let res = match guarded(|| GenericPurl::<Scripted>::from_str(s)) {
        Ok(r) => r,
        Err(m) => {
            acc.violate(Violation { prop: "C06", kind: "panic".into(), case, detail: m });
            return;
        },
    };
    let log: Vec<Event> = LOG.with(|l| l.borrow().clone());
    let convs: Vec<&String> = log.iter().filter_map(|e| if let Event::Conv(a) = e { Some(a) } else { None }).collect();
    let finishes = log.iter().filter(|e| matches!(e, Event::Finish)).count();
    acc.add("transitions", log.len() as u64 + 1);
    // protocol invariants: hold for every input, judged or not
    if convs.len() > 1 {
        viol(acc, &case, "conversion-called-twice", format!("conversion called {} times", convs.len()));
    }
    if let Some(arg) = convs.first() {
        if !R::valid_type(arg) {
            viol(acc, &case, "conversion-invalid-argument", format!("conversion called with {:?}, not a valid type", arg));
        }
        let written = R::raw_split(s).map(|r| r.ty.to_owned());
        if written.as_deref() != Some(arg.as_str()) {
            viol(acc, &case, "conversion-argument-not-as-written", format!("conversion called with {:?}, the input spells the type {:?}", arg, written));
        }
    }
    if finishes > 1 {
        viol(acc, &case, "hook-called-twice", format!("finishing hook called {} times in one parse", finishes));
    }
    if finishes > 0 {
        let conv_pos = log.iter().position(|e| matches!(e, Event::Conv(_)));
        let fin_pos = log.iter().position(|e| matches!(e, Event::Finish));
        if conv_pos.is_none() || conv_pos > fin_pos || prog.conv_fail.is_some() {
            viol(acc, &case, "hook-before-conversion", "finishing hook ran although the conversion had not succeeded".into());
        }
    }
    if res.is_ok() && finishes != 1 {
        viol(acc, &case, "purl-without-hook", format!("a PURL was produced but the hook ran {} times", finishes));
    }
    if let Ok(p) = &res {
        m04(p, false, &case, acc);
    }
    // end-to-end result against the reference
    let r = R::rparse_opt(s, Mode::Generic, false);
    if r.unjudged != 0 {
        acc.unjudged += 1;
        acc.sig(&("unjudged", res.is_ok()));
        return;
    }
    acc.judged += 1;
    acc.nontrivial += 1;
    if r.defects != 0 {
        // pre-hook defects: no PURL, hook never runs; the error is the parse error, or the scripted
        // conversion error when the conversion was reached first
        let classes = r.classes();
        match &res {
            Ok(_) => viol(acc, &case, "invalid-accepted", format!("{} although the input has defects {:?}", describe(&res), classes.iter().map(|c| c.name()).collect::<Vec<_>>())),
            Err(MyErr::Parse(e)) => {
                let c = classify_parse_error(e);
                if !classes.contains(&c) {
                    // which parse error is C05's business
                    acc.count("parse_error_class_differs_from_reference");
                }
            },
            Err(MyErr::Conv(i)) => {
                if prog.conv_fail != Some(*i) || convs.len() != 1 {
                    viol(acc, &case, "conversion-error-changed", format!("Err(Conv({i})) but the program says {:?}", prog.conv_fail));
                }
            },
            Err(MyErr::Hook(j)) => viol(acc, &case, "hook-ran-on-invalid-input", format!("Err(Hook({j})) on an input with pre-hook defects")),
        }
        if finishes != 0 {
            viol(acc, &case, "hook-ran-on-invalid-input", "finishing hook ran on an input with pre-hook defects".into());
        }
        acc.sig(&("defect", r.defects));
        return;
    }
    let t = r.tuple.unwrap();
    if convs.len() != 1 {
        viol(acc, &case, "conversion-not-called", format!("valid input but the conversion was called {} times", convs.len()));
    }
    if let Some(i) = prog.conv_fail {
        match &res {
            Err(MyErr::Conv(j)) if *j == i => {},
            _ => viol(acc, &case, "conversion-error-changed", format!("conversion fails with #{i}, result is {}", describe(&res))),
        }
        if finishes != 0 {
            viol(acc, &case, "hook-before-conversion", "hook ran after a failed conversion".into());
        }
        acc.sig(&("conv-fail", i));
        return;
    }
    if finishes != 1 {
        viol(acc, &case, "hook-not-called", format!("valid input, conversion succeeded, hook ran {} times", finishes));
    }
    let mut rp = RefParts { ns: t.ns.join("/"), name: t.name.clone(), version: t.version.clone().unwrap_or_default(), quals: t.quals.clone(), subpath: t.subpath.join("/") };
    states.insert(h64(&rp));
    for p in &prog.hook {
        apply_ref(*p, &mut rp);
        states.insert(h64(&rp));
        acc.add("transitions", 1);
    }
    check_result(prog, &t.ty, &rp, &res, &case, acc);
}

fn check_result(prog: &Program, ty: &str, rp: &RefParts, res: &Result<GenericPurl<Scripted>, MyErr>, case: &Value, acc: &mut Acc) {
    if let Some(j) = prog.hook_fail {
        match res {
            Err(MyErr::Hook(k)) if *k == j => {},
            _ => viol(acc, case, "hook-error-changed", format!("hook fails with #{j}, result is {}", describe(res))),
        }
        acc.sig(&("hook-fail", j));
        return;
    }
    match (post_hook(ty, rp), res) {
        (Err(c), Err(MyErr::Parse(e))) => {
            // refused by the generic checks: the property does not name the error, any parse error will do
            if classify_parse_error(e) != c {
                acc.count("post_hook_refusal_with_another_parse_error");
            }
            acc.sig(&("post-refused", c));
        },
        (Err(c), other) => {
            viol(acc, case, "post-hook-check-missing", format!("{} although the parts after the hook must be refused with {}: {:?}", describe(other), c.name(), rp));
            // C12's clause for user-supplied types: a malformed checksum written by the hook is refused
            if let (Ok(p), Some(text)) = (other, rp.quals.get("checksum").filter(|v| !v.is_empty())) {
                if R::checksum_canonical(text).is_none() && !rp.name.is_empty() {
                    acc.violate(Violation { prop: "C12", kind: "hook-checksum-not-refused".into(), case: case.clone(), detail: format!("the hook left the malformed checksum {:?}; the PURL is handed out with {:?}", text, p.qualifiers().get("checksum")) });
                }
            }
        },
        (Ok(want), Ok(p)) => {
            let got = observe(p);
            if got != want {
                viol(acc, case, "post-hook-value", format!("accessors {:?}, expected {:?}", got, want));
                // C12's clause for user-supplied types: whatever checksum the hook leaves is carried in its one canonical text
                let (gc, wc) = (got.quals.iter().find(|(k, _)| k == "checksum"), want.quals.iter().find(|(k, _)| k == "checksum"));
                if gc != wc {
                    acc.violate(Violation { prop: "C12", kind: "hook-checksum-not-canonical".into(), case: case.clone(), detail: format!("checksum {:?}, expected {:?}", gc, wc) });
                }
            }
            acc.calls += 1;
            match guarded(|| p.to_string()) {
                Ok(text) => {
                    if text != R::render(&want) {
                        viol(acc, case, "post-hook-string", format!("to_string() = {:?}, expected {:?}", text, R::render(&want)));
                    }
                },
                Err(m) => viol(acc, case, "display-panics", format!("to_string() panicked on a valid type: {m}")),
            }
            acc.accepted += 1;
            acc.sig(&("ok", got.ns.is_some(), got.version.is_some(), got.quals.len().min(3), got.subpath.is_some()));
        },
        (Ok(want), other) => viol(acc, case, "post-hook-refused", format!("{}, expected Ok({:?})", describe(other), want)),
    }
}

/// builder inputs: a fixed set of builder states x programs
pub fn builder_inputs() -> Vec<(String, RefParts)> {
    let mut out = Vec::new();
    for ty in ["t", "T.x"] {
        for name in ["n", "", "A/b"] {
            for ns in ["", "g", "/x//"] {
                for q in [vec![], vec![("k", "v")], vec![("K", ""), ("checksum", "B:00,a:FF")], vec![("checksum", "zz")]] {
                    let mut quals = BTreeMap::new();
                    for (k, v) in &q {
                        quals.insert(k.to_ascii_lowercase(), v.to_string());
                    }
                    out.push((ty.to_owned(), RefParts { ns: ns.into(), name: name.into(), version: "1".into(), quals, subpath: "s/./t".into() }));
                }
            }
        }
    }
    out
}

pub fn run_build_case(prog: &Program, ty: &str, start: &RefParts, states: &mut BTreeSet<u64>, acc: &mut Acc) {
    run_build_case_via(prog, ty, start, false, states, acc)
}

/// `via_new`: through `GenericPurl::new(type, name)` instead of the builder (only the name is set)
pub fn run_build_case_via(prog: &Program, ty: &str, start: &RefParts, via_new: bool, states: &mut BTreeSet<u64>, acc: &mut Acc) {
    acc.evals += 1;
    acc.calls += 1;
    let case = json!({"engine": "shape-build", "via_new": via_new, "program": prog_json(prog), "ty": ty, "parts": {"ns": start.ns, "name": start.name, "version": start.version, "quals": start.quals, "subpath": start.subpath}});
    PROGRAM.with(|p| *p.borrow_mut() = prog.clone());
    LOG.with(|l| l.borrow_mut().clear());
    let res = match guarded(|| {
        if via_new {
            return GenericPurl::new(Scripted { ty: ty.to_ascii_lowercase() }, start.name.as_str());
        }
        let mut b = GenericPurlBuilder::new(Scripted { ty: ty.to_ascii_lowercase() }, start.name.as_str()).with_namespace(start.ns.as_str()).with_version(start.version.as_str()).with_subpath(start.subpath.as_str());
        for (k, v) in &start.quals {
            b = b.with_qualifier(k.as_str(), v.as_str()).expect("valid key");
        }
        b.build()
    }) {
        Ok(r) => r,
        Err(m) => {
            acc.violate(Violation { prop: "C06", kind: "panic".into(), case, detail: m });
            return;
        },
    };
    let log: Vec<Event> = LOG.with(|l| l.borrow().clone());
    let finishes = log.iter().filter(|e| matches!(e, Event::Finish)).count();
    acc.add("transitions", log.len() as u64 + 1);
    acc.nontrivial += 1;
    if finishes != 1 || log.len() != 1 {
        viol(acc, &case, "build-hook-count", format!("build() ran the hook {} times (and the conversion {} times)", finishes, log.len() - finishes));
    }
    if let Ok(p) = &res {
        m04(p, false, &case, acc);
    }
    let mut rp = start.clone();
    states.insert(h64(&rp));
    for p in &prog.hook {
        apply_ref(*p, &mut rp);
        states.insert(h64(&rp));
        acc.add("transitions", 1);
    }
    check_result(prog, &ty.to_ascii_lowercase(), &rp, &res, &case, acc);
}

pub fn prog_json(p: &Program) -> Value {
    json!({"conv_fail": p.conv_fail, "hook": p.hook.iter().map(|x| format!("{:?}", x)).collect::<Vec<_>>(), "hook_fail": p.hook_fail})
}

pub fn prog_from_json(v: &Value) -> Option<Program> {
    let hook = v["hook"].as_array()?.iter().map(|x| PRIMS.iter().copied().find(|p| format!("{:?}", p) == x.as_str().unwrap_or(""))).collect::<Option<Vec<_>>>()?;
    Some(Program { conv_fail: v["conv_fail"].as_u64().map(|x| x as u8), hook, hook_fail: v["hook_fail"].as_u64().map(|x| x as u8) })
}

pub fn replay(case: &Value) -> Option<Vec<Violation>> {
    let mut acc = Acc::new();
    let prog = prog_from_json(&case["program"])?;
    let mut st = BTreeSet::new();
    match case["engine"].as_str()? {
        "shape-parse" => run_parse_case(&prog, case["input"].as_str()?, &mut st, &mut acc),
        "shape-build" => {
            let p = &case["parts"];
            let quals: BTreeMap<String, String> = p["quals"].as_object()?.iter().map(|(k, v)| (k.clone(), v.as_str().unwrap_or("").to_owned())).collect();
            let start = RefParts { ns: p["ns"].as_str()?.into(), name: p["name"].as_str()?.into(), version: p["version"].as_str()?.into(), quals, subpath: p["subpath"].as_str()?.into() };
            run_build_case_via(&prog, case["ty"].as_str()?, &start, case["via_new"].as_bool().unwrap_or(false), &mut st, &mut acc)
        },
        _ => return None,
    }
    Some(acc.violations)
}

/// The whole C14 exploration: programs x (lens strings + builder states).
pub fn explore(tier: Tier) -> (Acc, Value, u64, u64) {
    let progs = programs(tier);
    let l = lens::lens("A1b");
    let n = match tier {
        Tier::Quick => 3,
        Tier::Thorough => 4,
    };
    // inputs: every node of the macro-separator lens up to n tokens under two type spellings, plus checksum/qualifier strings
    let mut inputs: Vec<String> = Vec::new();
    for prefix in ["pkg:t/", "pkg:T.x/"] {
        let mut stack: Vec<(String, usize)> = vec![(prefix.to_owned(), 0)];
        while let Some((s, d)) = stack.pop() {
            if d < n {
                for t in l.alphabet.iter().rev() {
                    stack.push((format!("{s}{t}"), d + 1));
                }
            }
            inputs.push(s);
        }
    }
    for extra in ["pkg:%74/n", "pkg:%54/n@1", "pkg:t%2Ex/n", "pkg:t%2ex/ns/n?k=v", "pkg:%21/n", "pkg:t/n?checksum=B:FF,a:0A", "pkg:t/n?checksum=zz", "pkg:t/n?checksum=a:00", "pkg:t/n?checksum=b:00&k=v", "pkg:t/n?filename=a&file_name=b", "pkg:t/n?repositoryid=7&repository_url=u&repo=x", "pkg:t/n?file_name=b&filename=a&file=c&files=d", "pkg:t/n?k=v&K2=w#a/../b", "pkg:t/ns/n@1?k=&l=x", "pkg:t/%80", "pkg:t/n?k", "pkg:!/n", "pkg:t", "t/n", "pkg:t/n@%zz", "pkg:t/a%2Fb/n"] {
        inputs.push(extra.to_owned());
    }
    // every ASCII character (control characters included) and a few others inside and as the type:
    // the conversion must never see a type substring that is not syntactically valid
    for c in (0u32..0x180).filter_map(char::from_u32).chain(['\u{212A}', '\u{FF54}', '\u{1F600}']) {
        if matches!(c, '/' | '?' | '#' | '@') {
            continue;
        }
        inputs.push(format!("pkg:t{c}x/n"));
        inputs.push(format!("pkg:{c}/n@1"));
    }
    let binputs = builder_inputs();
    let states = std::sync::Mutex::new(BTreeSet::<u64>::new());
    let np = progs.len();
    let mut acc = par_items(np, threads(), |pi, acc| {
        let prog = &progs[pi];
        let mut st = BTreeSet::new();
        for s in &inputs {
            run_parse_case(prog, s, &mut st, acc);
        }
        for (ty, start) in &binputs {
            run_build_case(prog, ty, start, &mut st, acc);
        }
        // the short cut GenericPurl::new(type, name) must behave like builder + build()
        for name in ["n", "", "A/b"] {
            let start = RefParts { name: name.into(), ..Default::default() };
            run_build_case_via(prog, "t", &start, true, &mut st, acc);
        }
        if pi == 40 {
            acc.sample(|| json!({"program": prog_json(prog), "input": inputs[inputs.len() / 2]}));
        }
        states.lock().unwrap().extend(st);
    });
    let n_states = states.into_inner().unwrap().len() as u64;
    let transitions = acc.counters.get("transitions").copied().unwrap_or(0);
    acc.samples.push(json!({"program": prog_json(&progs[progs.len() / 3]), "input": inputs[7]}));
    let rep = json!({"engine": "C-programs", "programs": np, "hook_primitives": PRIMS.iter().map(|p| format!("{:?}", p)).collect::<Vec<_>>(), "parse_inputs": inputs.len(), "lens": "A1b-separators-macro", "lens_max_tokens": n, "builder_inputs": binputs.len(), "executions": acc.evals, "distinct_reference_records": n_states, "protocol_steps": transitions});
    (acc, rep, n_states, transitions)
}
