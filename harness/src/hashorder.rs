//! Engine D — the one environment answer the crate depends on: the iteration order of the hash
//! map inside `Checksum`. With `--cfg purl_verif` the map's hasher is scripted (hook in /repo), so
//! every permutation of n entries is produced deliberately: all insertion orders x all bucket
//! assignments. Without the cfg, `production_orders` observes what random seeding produces.

use purl::qualifiers::well_known::Checksum;
use serde_json::{json, Value};

use crate::common::*;
use crate::refmodel as R;

pub fn entry_sets(tier: Tier) -> Vec<Vec<(&'static str, &'static str)>> {
    let mut sets = vec![
        vec![("b", "00")],
        vec![("b", "ff0a"), ("a", "00")],
        vec![("sha1", "00"), ("b", "ff0a"), ("é", "")],
        vec![("a", "00"), ("a1", "11"), ("a-", "22")],
        vec![("b", "00"), ("a", "ff0a"), ("ǆ", "0a"), ("sha256", "")],
        vec![("md5", "00"), ("sha1", "11"), ("sha256", "22"), ("sha512", "33")],
    ];
    if tier == Tier::Thorough {
        sets.push(vec![("e", "00"), ("d", "11"), ("c", "22"), ("b", "33"), ("a", "44")]);
        sets.push(vec![("sha1", "00"), ("b", "ff0a"), ("é", ""), ("ǆ", "0a"), ("a:b", "ab")]);
    }
    sets
}

fn canonical(set: &[(&str, &str)]) -> String {
    let mut v: Vec<(&str, &str)> = set.to_vec();
    v.sort();
    v.iter().map(|(k, h)| format!("{k}:{h}")).collect::<Vec<_>>().join(",")
}

fn permutations(n: usize) -> Vec<Vec<usize>> {
    fn rec(cur: &mut Vec<usize>, used: &mut Vec<bool>, n: usize, out: &mut Vec<Vec<usize>>) {
        if cur.len() == n {
            out.push(cur.clone());
            return;
        }
        for i in 0..n {
            if !used[i] {
                used[i] = true;
                cur.push(i);
                rec(cur, used, n, out);
                cur.pop();
                used[i] = false;
            }
        }
    }
    let mut out = Vec::new();
    rec(&mut Vec::new(), &mut vec![false; n], n, &mut out);
    out
}

fn upper(s: &str) -> String {
    s.chars().flat_map(|c| c.to_uppercase()).collect()
}

/// One scripted execution: insertion order + bucket assignment. Returns the iteration order seen.
#[cfg(purl_verif)]
pub fn scripted_case(set: &[(&str, &str)], order: &[usize], buckets: &[u64], acc: &mut Acc) -> Vec<usize> {
    acc.evals += 1;
    acc.calls += 3;
    let case = || json!({"engine": "hashorder", "entries": set, "insertion_order": order, "buckets": buckets});
    let script: Vec<(Vec<u8>, u64)> = set.iter().enumerate().map(|(i, (k, _))| (k.as_bytes().to_vec(), buckets[i] | (((i as u64) + 1) << 57))).collect();
    purl::verif_hooks::set_script(script);
    let want = canonical(set);
    let mut seen = Vec::new();
    let r = guarded(|| {
        let mut c = Checksum::default();
        for (j, i) in order.iter().enumerate() {
            let (k, h) = set[*i];
            // insert under another letter case every other time; the stored key is lower-case
            let spelled = if j % 2 == 1 { upper(k) } else { k.to_owned() };
            let spelled = if R::lower_per_char(&spelled) == k { spelled } else { k.to_owned() };
            c.insert_raw(&spelled, h.to_owned());
        }
        let it: Vec<usize> = c.iter().map(|(k, _)| set.iter().position(|(a, _)| *a == k).unwrap_or(usize::MAX)).collect();
        let text = SStr::try_from(c.clone());
        match &text {
            Ok(t) if t.as_str() == want => {},
            other => acc.violate(Violation { prop: "C12", kind: "text-depends-on-hash-order".into(), case: case(), detail: format!("iteration order {:?}: text form {:?}, expected {:?}", it, other.as_ref().map(|t| t.to_string()).map_err(|e| e.to_string()), want) }),
        }
        // text in iteration order (not canonical) -> typed -> text
        let scrambled: String = it.iter().filter(|i| **i != usize::MAX).map(|i| format!("{}:{}", upper(set[*i].0), set[*i].1.to_ascii_uppercase())).collect::<Vec<_>>().join(",");
        let reparsed_ok = set.iter().all(|(k, _)| R::lower_per_char(&upper(k)) == *k);
        if reparsed_ok {
            match Checksum::try_from(scrambled.as_str()).and_then(SStr::try_from) {
                Ok(t) if t.as_str() == want => {},
                other => acc.violate(Violation { prop: "C12", kind: "reparse-depends-on-hash-order".into(), case: case(), detail: format!("{:?} -> {:?}, expected {:?}", scrambled, other.map(|t| t.to_string()).map_err(|e| e.to_string()), want) }),
            }
        }
        it
    });
    purl::verif_hooks::set_script(Vec::new());
    match r {
        Ok(it) => seen = it,
        Err(m) => acc.violate(Violation { prop: "C06", kind: "panic".into(), case: case(), detail: m }),
    }
    seen
}

#[cfg(purl_verif)]
pub fn run(tier: Tier, out: &str) -> i32 {
    let mut stages = Vec::new();
    let mut total = Acc::new();
    for set in entry_sets(tier) {
        let n = set.len();
        if tier == Tier::Quick && n > 4 {
            continue;
        }
        let perms = permutations(n);
        let nb = 8u64;
        let assignments = nb.pow(n as u32);
        let orders_seen = std::sync::Mutex::new(std::collections::BTreeSet::<Vec<usize>>::new());
        let a = par_items(perms.len(), threads(), |pi, acc| {
            let order = &perms[pi];
            let mut local = std::collections::BTreeSet::new();
            let mut buckets = vec![0u64; n];
            for code in 0..assignments {
                let mut c = code;
                for b in buckets.iter_mut() {
                    *b = c % nb;
                    c /= nb;
                }
                let it = scripted_case(&set, order, &buckets, acc);
                local.insert(it);
            }
            orders_seen.lock().unwrap().extend(local);
        });
        let seen = orders_seen.into_inner().unwrap();
        let fact: usize = (1..=n).product();
        stages.push(json!({"engine": "D-hash-orders", "entries": set, "insertion_orders": perms.len(), "bucket_assignments": assignments, "executions": a.evals,
                           "distinct_iteration_orders_observed": seen.len(), "n_factorial": fact, "all_permutations_produced": seen.len() == fact}));
        if seen.len() != fact {
            total.violate(Violation { prop: "C12", kind: "machinery-orders-not-all-produced".into(), case: json!({"engine": "hashorder-coverage", "entries": set}), detail: format!("only {} of {} iteration orders were produced by the scripted hasher", seen.len(), fact) });
        }
        total.merge(a);
        total.sig(&(n, seen.len()));
    }
    total.nontrivial = total.evals;
    let body = json!({
        "stages": stages,
        "evals": total.evals,
        "calls": total.calls,
        "violations": total.violations.iter().map(|v| json!({"prop": v.prop, "kind": v.kind, "case": v.case, "detail": v.detail})).collect::<Vec<_>>(),
        "violation_count": total.violation_count,
    });
    match std::fs::write(out, serde_json::to_string_pretty(&body).unwrap()) {
        Ok(()) => 0,
        Err(e) => {
            eprintln!("MACHINERY: cannot write {out}: {e}");
            2
        },
    }
}

#[cfg(purl_verif)]
pub fn replay(case: &Value) -> Option<Vec<Violation>> {
    let entries: Vec<(String, String)> = case["entries"].as_array()?.iter().map(|e| Some((e[0].as_str()?.to_owned(), e[1].as_str()?.to_owned()))).collect::<Option<Vec<_>>>()?;
    let set: Vec<(&str, &str)> = entries.iter().map(|(a, b)| (a.as_str(), b.as_str())).collect();
    let order: Vec<usize> = case["insertion_order"].as_array()?.iter().map(|x| x.as_u64().unwrap_or(0) as usize).collect();
    let buckets: Vec<u64> = case["buckets"].as_array()?.iter().map(|x| x.as_u64().unwrap_or(0)).collect();
    let mut acc = Acc::new();
    scripted_case(&set, &order, &buckets, &mut acc);
    Some(acc.violations)
}

/// Production build: what iteration orders does random seeding produce? (sampling; labelled so)
pub fn production_orders(tier: Tier) -> (Acc, Value) {
    let mut acc = Acc::new();
    let mut reps = Vec::new();
    let attempts = match tier {
        Tier::Quick => 3000,
        Tier::Thorough => 40000,
    };
    for set in entry_sets(tier) {
        let n = set.len();
        if n > 4 {
            continue;
        }
        let fact: usize = (1..=n).product();
        let want = canonical(&set);
        let mut seen = std::collections::BTreeSet::new();
        let mut tries = 0;
        while seen.len() < fact && tries < attempts {
            tries += 1;
            acc.evals += 1;
            let mut c = Checksum::default();
            for (j, (k, h)) in set.iter().enumerate() {
                let spelled = if j % 2 == 1 && R::lower_per_char(&upper(k)) == *k { upper(k) } else { k.to_string() };
                c.insert_raw(&spelled, h.to_string());
            }
            let it: Vec<String> = c.iter().map(|(k, _)| k.to_owned()).collect();
            match SStr::try_from(c) {
                Ok(t) if t.as_str() == want => {},
                other => acc.violate(Violation { prop: "C12", kind: "text-depends-on-hash-order".into(), case: json!({"engine": "production-orders", "entries": set, "iteration_order": it}), detail: format!("text form {:?}, expected {:?}", other.map(|t| t.to_string()).map_err(|e| e.to_string()), want) }),
            }
            seen.insert(it);
        }
        acc.sig(&("prod", n, seen.len()));
        reps.push(json!({"entries": set, "fresh_randomly_seeded_instances": tries, "distinct_iteration_orders_observed": seen.len(), "n_factorial": fact}));
    }
    acc.nontrivial = acc.evals;
    (acc, json!({"engine": "D-production-orders (sampling of random seeds; not exhaustive)", "sets": reps}))
}
