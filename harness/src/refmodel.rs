//! R — the reference model. Written independently of the implementation's structure: index
//! scanning, its own lenient percent decoder, a hand-written UTF-8 recogniser (Unicode Table 3-7),
//! `BTreeMap` for sorted data, escape tables transcribed from the text of C03. Trusts only
//! `char::to_lowercase` / `to_ascii_lowercase` from std.

use std::collections::BTreeMap;

use crate::common::{ErrClass, Tuple};

// --- unjudged reasons (bit mask) ---------------------------------------------------------------
pub const U_SCHEME_CASE: u32 = 1 << 0;
pub const U_ENCODED_DOT: u32 = 1 << 1;
pub const U_EMPTY_ITEM: u32 = 1 << 2;
pub const U_KEY_START: u32 = 1 << 3;
pub const U_DUP_EMPTY: u32 = 1 << 4;
pub const U_TYPE_START: u32 = 1 << 5;
pub const U_TRAILING_SLASH_NAME: u32 = 1 << 6;
pub const U_EMPTY_VERSION: u32 = 1 << 7;
pub const U_EMPTY_SUBPATH: u32 = 1 << 8;

pub const UNJUDGED_NAMES: [&str; 9] = [
    "scheme-case-variant",
    "encoded-dot-segment",
    "empty-qualifier-item",
    "key-starts-with-non-letter",
    "duplicate-key-with-empty-value",
    "type-starts-with-non-letter",
    "empty-name-after-nonempty-path",
    "version-separator-without-version",
    "subpath-separator-without-segments",
];

#[derive(Clone, Copy, Debug, PartialEq, Eq)]
pub enum Mode {
    Generic,
    Typed,
}

#[derive(Clone, Debug, Default)]
pub struct RRes {
    pub unjudged: u32,
    pub defects: u32,
    pub tuple: Option<Tuple>,
    /// the decoded name is empty (NoName is then reported by build(), after the finishing hook)
    pub empty_name: bool,
    /// the type substring exactly as written
    pub raw_type: Option<String>,
}

impl RRes {
    pub fn classes(&self) -> Vec<ErrClass> {
        ErrClass::ALL.iter().copied().filter(|c| self.defects & c.bit() != 0).collect()
    }
}

// --- bytes ---------------------------------------------------------------------------------------

fn hexval(b: u8) -> Option<u8> {
    match b {
        b'0'..=b'9' => Some(b - b'0'),
        b'a'..=b'f' => Some(b - b'a' + 10),
        b'A'..=b'F' => Some(b - b'A' + 10),
        _ => None,
    }
}

/// Lenient percent decoding: `%` followed by two hex digits is a byte, any other `%` is literal.
pub fn pct_decode_bytes(s: &str) -> Vec<u8> {
    let b = s.as_bytes();
    let mut out = Vec::with_capacity(b.len());
    let mut i = 0;
    while i < b.len() {
        if b[i] == b'%' && i + 2 < b.len() {
            if let (Some(h), Some(l)) = (hexval(b[i + 1]), hexval(b[i + 2])) {
                out.push(h * 16 + l);
                i += 3;
                continue;
            }
        }
        out.push(b[i]);
        i += 1;
    }
    out
}

/// Well-formed UTF-8 byte sequences, Unicode Standard Table 3-7.
pub fn utf8_well_formed(b: &[u8]) -> bool {
    let mut i = 0;
    let n = b.len();
    while i < n {
        let c = b[i];
        let need = |k: usize| i + k < n;
        let cont = |x: u8, lo: u8, hi: u8| x >= lo && x <= hi;
        if c <= 0x7F {
            i += 1;
        } else if (0xC2..=0xDF).contains(&c) {
            if !(need(1) && cont(b[i + 1], 0x80, 0xBF)) {
                return false;
            }
            i += 2;
        } else if c == 0xE0 {
            if !(need(2) && cont(b[i + 1], 0xA0, 0xBF) && cont(b[i + 2], 0x80, 0xBF)) {
                return false;
            }
            i += 3;
        } else if (0xE1..=0xEC).contains(&c) || c == 0xEE || c == 0xEF {
            if !(need(2) && cont(b[i + 1], 0x80, 0xBF) && cont(b[i + 2], 0x80, 0xBF)) {
                return false;
            }
            i += 3;
        } else if c == 0xED {
            if !(need(2) && cont(b[i + 1], 0x80, 0x9F) && cont(b[i + 2], 0x80, 0xBF)) {
                return false;
            }
            i += 3;
        } else if c == 0xF0 {
            if !(need(3) && cont(b[i + 1], 0x90, 0xBF) && cont(b[i + 2], 0x80, 0xBF) && cont(b[i + 3], 0x80, 0xBF)) {
                return false;
            }
            i += 4;
        } else if (0xF1..=0xF3).contains(&c) {
            if !(need(3) && cont(b[i + 1], 0x80, 0xBF) && cont(b[i + 2], 0x80, 0xBF) && cont(b[i + 3], 0x80, 0xBF)) {
                return false;
            }
            i += 4;
        } else if c == 0xF4 {
            if !(need(3) && cont(b[i + 1], 0x80, 0x8F) && cont(b[i + 2], 0x80, 0xBF) && cont(b[i + 3], 0x80, 0xBF)) {
                return false;
            }
            i += 4;
        } else {
            return false;
        }
    }
    true
}

/// Decode a component; `None` = the escapes do not form valid UTF-8.
pub fn pct_decode(s: &str) -> Option<String> {
    let b = pct_decode_bytes(s);
    if utf8_well_formed(&b) {
        // the recogniser above is the judge; the conversion below cannot fail when it agrees with std
        Some(String::from_utf8(b).expect("reference UTF-8 recogniser accepted what std refuses"))
    } else {
        None
    }
}

fn rfind_byte(s: &str, c: u8) -> Option<usize> {
    let b = s.as_bytes();
    let mut i = b.len();
    while i > 0 {
        i -= 1;
        if b[i] == c {
            return Some(i);
        }
    }
    None
}

fn find_byte(s: &str, c: u8) -> Option<usize> {
    s.as_bytes().iter().position(|x| *x == c)
}

fn split_byte(s: &str, c: u8) -> Vec<&str> {
    let mut out = Vec::new();
    let mut start = 0;
    let b = s.as_bytes();
    for i in 0..b.len() {
        if b[i] == c {
            out.push(&s[start..i]);
            start = i + 1;
        }
    }
    out.push(&s[start..]);
    out
}

pub fn valid_type(t: &str) -> bool {
    !t.is_empty() && t.bytes().all(|b| b.is_ascii_alphanumeric() || b == b'.' || b == b'+' || b == b'-')
}

pub fn valid_key(k: &str) -> bool {
    !k.is_empty() && k.bytes().all(|b| b.is_ascii_alphanumeric() || b == b'.' || b == b'-' || b == b'_')
}

pub const KNOWN_TYPES: [&str; 7] = ["cargo", "gem", "golang", "maven", "npm", "nuget", "pypi"];

/// Unicode lower-casing, character by character.
pub fn lower_per_char(s: &str) -> String {
    let mut out = String::with_capacity(s.len());
    for c in s.chars() {
        for l in c.to_lowercase() {
            out.push(l);
        }
    }
    out
}

/// The name rule of a (lower-case) type name, as C08 states it.
pub fn name_rule(ty: &str, name: &str) -> String {
    match ty {
        "nuget" => lower_per_char(name),
        "pypi" => {
            let mut out = String::new();
            let mut in_run = false;
            for c in name.chars() {
                if c == '-' || c == '_' || c == '.' {
                    if !in_run {
                        out.push('-');
                    }
                    in_run = true;
                } else {
                    in_run = false;
                    for l in c.to_lowercase() {
                        out.push(l);
                    }
                }
            }
            out
        },
        _ => name.to_owned(),
    }
}

/// Canonical checksum text, or None if malformed (C05/C12).
pub fn checksum_canonical(value: &str) -> Option<String> {
    let mut map: BTreeMap<String, String> = BTreeMap::new();
    for entry in split_byte(value, b',') {
        let colon = rfind_byte(entry, b':')?;
        let alg = lower_per_char(&entry[..colon]);
        let hex = &entry[colon + 1..];
        if hex.len() % 2 != 0 || !hex.bytes().all(|b| hexval(b).is_some()) {
            return None;
        }
        if map.insert(alg, hex.to_ascii_lowercase()).is_some() {
            return None;
        }
    }
    let mut out = String::new();
    for (i, (k, v)) in map.iter().enumerate() {
        if i > 0 {
            out.push(',');
        }
        out.push_str(k);
        out.push(':');
        out.push_str(v);
    }
    Some(out)
}

/// Where the right-to-left splitting puts the component boundaries (raw text, undecoded).
#[derive(Clone, Debug, Default)]
pub struct RawSplit<'a> {
    pub ty: &'a str,
    pub ns: Option<&'a str>,
    pub name: &'a str,
    pub version: Option<&'a str>,
    pub quals: Option<&'a str>,
    pub subpath: Option<&'a str>,
}

/// Split a string that starts with `pkg:`; None when there is no type/name structure.
pub fn raw_split(s: &str) -> Option<RawSplit<'_>> {
    let rest = s.strip_prefix("pkg:")?;
    let mut i = 0;
    while i < rest.len() && rest.as_bytes()[i] == b'/' {
        i += 1;
    }
    let rest = &rest[i..];
    let (main, subpath) = match rfind_byte(rest, b'#') {
        Some(p) => (&rest[..p], Some(&rest[p + 1..])),
        None => (rest, None),
    };
    let (path, quals) = match rfind_byte(main, b'?') {
        Some(p) => (&main[..p], Some(&main[p + 1..])),
        None => (main, None),
    };
    let slash = find_byte(path, b'/')?;
    let ty = &path[..slash];
    let rest2 = &path[slash + 1..];
    let (rest3, version) = match rfind_byte(rest2, b'@') {
        Some(p) => (&rest2[..p], Some(&rest2[p + 1..])),
        None => (rest2, None),
    };
    let (ns, name) = match rfind_byte(rest3, b'/') {
        Some(p) => (Some(&rest3[..p]), &rest3[p + 1..]),
        None => (None, rest3),
    };
    Some(RawSplit { ty, ns, name, version, quals, subpath })
}

/// The reference parser. Collects *all* defect classes instead of stopping at the first.
pub fn rparse(s: &str, mode: Mode) -> RRes {
    rparse_opt(s, mode, true)
}

/// `post` = apply what build() does after the finishing hook (empty-name check, checksum
/// canonicalisation, typed rules); with `post == false` the tuple is what the hook gets to see.
pub fn rparse_opt(s: &str, mode: Mode, post: bool) -> RRes {
    let mut r = RRes::default();
    if !s.starts_with("pkg:") {
        if s.len() >= 4 && s.is_char_boundary(4) && s[..4].eq_ignore_ascii_case("pkg:") {
            r.unjudged |= U_SCHEME_CASE;
        }
        r.defects |= ErrClass::Scheme.bit();
        return r;
    }
    let mut i = 4;
    while i < s.len() && s.as_bytes()[i] == b'/' {
        i += 1;
    }
    let rest = &s[i..];
    let (main, subpath_raw) = match rfind_byte(rest, b'#') {
        Some(p) => (&rest[..p], Some(&rest[p + 1..])),
        None => (rest, None),
    };
    let (path, quals_raw) = match rfind_byte(main, b'?') {
        Some(p) => (&main[..p], Some(&main[p + 1..])),
        None => (main, None),
    };
    let mut t = Tuple::default();

    // subpath
    if let Some(sp) = subpath_raw {
        for piece in split_byte(sp, b'/') {
            if piece.is_empty() || piece == "." || piece == ".." {
                continue;
            }
            match pct_decode(piece) {
                None => r.defects |= ErrClass::Escape.bit(),
                Some(d) => {
                    if d.contains('/') {
                        r.defects |= ErrClass::Escape.bit();
                    } else if d == "." || d == ".." {
                        r.unjudged |= U_ENCODED_DOT;
                    } else {
                        t.subpath.push(d);
                    }
                },
            }
        }
    }

    if subpath_raw.is_some() && t.subpath.is_empty() && r.defects == 0 {
        // `#` followed by nothing but skipped pieces: not a spelling of any tuple of the property
        r.unjudged |= U_EMPTY_SUBPATH;
    }

    // qualifiers
    if let Some(q) = quals_raw {
        // key (lower) -> number of non-empty values seen, number of occurrences
        let mut seen: BTreeMap<String, (u32, u32)> = BTreeMap::new();
        for item in split_byte(q, b'&') {
            if item.is_empty() {
                r.unjudged |= U_EMPTY_ITEM;
                continue;
            }
            let Some(eq) = find_byte(item, b'=') else {
                r.defects |= ErrClass::Qualifier.bit();
                continue;
            };
            let key = &item[..eq];
            let val_raw = &item[eq + 1..];
            if !valid_key(key) {
                r.defects |= ErrClass::Qualifier.bit();
                continue;
            }
            if !key.as_bytes()[0].is_ascii_alphabetic() {
                r.unjudged |= U_KEY_START;
            }
            let lk = key.to_ascii_lowercase();
            let val = match pct_decode(val_raw) {
                None => {
                    r.defects |= ErrClass::Escape.bit();
                    continue;
                },
                Some(v) => v,
            };
            let e = seen.entry(lk.clone()).or_insert((0, 0));
            e.1 += 1;
            if !val.is_empty() {
                e.0 += 1;
            }
            if e.1 > 1 {
                if e.0 >= 2 {
                    r.defects |= ErrClass::Qualifier.bit();
                }
                // a repeated key where at most one occurrence carries a value: the property text
                // does not decide it. Flag also when a third occurrence is empty.
                if e.1 as u32 > e.0 {
                    r.unjudged |= U_DUP_EMPTY;
                }
            }
            if !val.is_empty() {
                t.quals.insert(lk, val);
            }
        }
    }

    if path.is_empty() {
        r.defects |= ErrClass::NoType.bit();
        return r;
    }
    let Some(slash) = find_byte(path, b'/') else {
        r.defects |= ErrClass::NoName.bit();
        if !valid_type(path) {
            r.defects |= ErrClass::BadType.bit();
        }
        return r;
    };
    let ty = &path[..slash];
    if !valid_type(ty) {
        r.defects |= ErrClass::BadType.bit();
    } else if !ty.as_bytes()[0].is_ascii_alphabetic() {
        r.unjudged |= U_TYPE_START;
    }
    t.ty = ty.to_ascii_lowercase();
    r.raw_type = Some(ty.to_owned());
    let rest2 = &path[slash + 1..];
    let (rest3, version_raw) = match rfind_byte(rest2, b'@') {
        Some(p) => (&rest2[..p], Some(&rest2[p + 1..])),
        None => (rest2, None),
    };
    if let Some(v) = version_raw {
        match pct_decode(v) {
            None => r.defects |= ErrClass::Escape.bit(),
            Some(d) => {
                if d.is_empty() {
                    // `n@`: the property's tuples have no empty version and its spelling freedoms do not
                    // list a dangling '@'
                    r.unjudged |= U_EMPTY_VERSION;
                }
                t.version = if d.is_empty() { None } else { Some(d) }
            },
        }
    }
    let (ns_raw, name_raw) = match rfind_byte(rest3, b'/') {
        Some(p) => (Some(&rest3[..p]), &rest3[p + 1..]),
        None => (None, rest3),
    };
    if let Some(ns) = ns_raw {
        for piece in split_byte(ns, b'/') {
            if piece.is_empty() {
                continue;
            }
            match pct_decode(piece) {
                None => r.defects |= ErrClass::Escape.bit(),
                Some(d) => {
                    if d.contains('/') {
                        r.defects |= ErrClass::Escape.bit();
                    } else {
                        t.ns.push(d);
                    }
                },
            }
        }
    }
    match pct_decode(name_raw) {
        None => r.defects |= ErrClass::Escape.bit(),
        Some(d) => {
            if d.is_empty() {
                r.empty_name = true;
                if post {
                    r.defects |= ErrClass::NoName.bit();
                }
                if ns_raw.map(|n| n.bytes().any(|b| b != b'/')).unwrap_or(false) {
                    r.unjudged |= U_TRAILING_SLASH_NAME;
                }
            }
            t.name = d;
        },
    }

    if !post {
        r.tuple = Some(t);
        return r;
    }
    // checksum
    if let Some(c) = t.quals.get("checksum").cloned() {
        match checksum_canonical(&c) {
            None => r.defects |= ErrClass::Qualifier.bit(),
            Some(canon) => {
                t.quals.insert("checksum".to_owned(), canon);
            },
        }
    }

    if mode == Mode::Typed && valid_type(ty) {
        if !KNOWN_TYPES.contains(&t.ty.as_str()) {
            r.defects |= ErrClass::Unsupported.bit();
        } else {
            if t.ty == "maven" && t.ns.is_empty() {
                r.defects |= ErrClass::NoNamespace.bit();
            }
            t.name = name_rule(&t.ty, &t.name);
        }
    }
    r.tuple = Some(t);
    r
}

// --- the independent renderer (C03) --------------------------------------------------------------

#[derive(Clone, Copy, PartialEq, Eq, Debug)]
pub enum Comp {
    Namespace,
    Name,
    Version,
    QualValue,
    QualKey,
    Subpath,
}

/// Must this byte be written as %XX inside this component (text of C03)?
pub fn must_escape(b: u8, comp: Comp) -> bool {
    if b < 0x20 || b == 0x7F || b == b' ' || b >= 0x80 {
        return true;
    }
    if matches!(b, b'"' | b'<' | b'>' | b'%' | b'@' | b'?' | b'#') {
        return true;
    }
    match comp {
        Comp::Namespace | Comp::Version => matches!(b, b'`' | b'{' | b'}'),
        Comp::Name => matches!(b, b'`' | b'{' | b'}' | b'/'),
        Comp::QualValue | Comp::QualKey => matches!(b, b'+' | b'&'),
        Comp::Subpath => b == b'`',
    }
}

pub fn escape_into(out: &mut String, s: &str, comp: Comp) {
    const HEX: &[u8; 16] = b"0123456789ABCDEF";
    for &b in s.as_bytes() {
        if must_escape(b, comp) {
            out.push('%');
            out.push(HEX[(b >> 4) as usize] as char);
            out.push(HEX[(b & 15) as usize] as char);
        } else {
            out.push(b as char);
        }
    }
}

pub fn render(o: &crate::common::Obs) -> String {
    let mut out = String::from("pkg:");
    out.push_str(&o.ty);
    out.push('/');
    if let Some(ns) = &o.ns {
        escape_into(&mut out, ns, Comp::Namespace);
        out.push('/');
    }
    escape_into(&mut out, &o.name, Comp::Name);
    if let Some(v) = &o.version {
        out.push('@');
        escape_into(&mut out, v, Comp::Version);
    }
    let mut quals: Vec<&(String, String)> = o.quals.iter().collect();
    quals.sort_by(|a, b| a.0.cmp(&b.0));
    for (i, (k, v)) in quals.iter().enumerate() {
        out.push(if i == 0 { '?' } else { '&' });
        escape_into(&mut out, k, Comp::QualKey);
        out.push('=');
        escape_into(&mut out, v, Comp::QualValue);
    }
    if let Some(sp) = &o.subpath {
        out.push('#');
        escape_into(&mut out, sp, Comp::Subpath);
    }
    out
}
