//! Shared plumbing: error classes, type-parameter flavours, observations, accumulators,
//! violations, known findings, evidence files.

use std::borrow::Cow;
use std::collections::{BTreeMap, BTreeSet, HashSet};
use std::fmt::Debug;
use std::hash::{Hash, Hasher};
use std::panic::{catch_unwind, AssertUnwindSafe};
use std::str::FromStr;
use std::sync::Mutex;

use purl::{GenericPurl, ParseError, PurlField, PurlShape};
use serde_json::{json, Value};

/// purl's small string type under the current feature set
#[cfg(feature = "smart")]
pub type SStr = purl::SmallString;
#[cfg(not(feature = "smart"))]
pub type SStr = String;

/// A user-defined well-known qualifier whose declared KEY is INVALID: inserting it is one of the
/// three documented panics; whether it panics or refuses, the collection must stay as it was.
pub struct BadKeyTag<'a>(pub &'a str);
impl purl::qualifiers::well_known::KnownQualifierKey for BadKeyTag<'_> {
    const KEY: &'static str = "bad key";
}
impl<'a> From<&'a str> for BadKeyTag<'a> {
    fn from(v: &'a str) -> Self {
        BadKeyTag(v)
    }
}
impl<'a> From<BadKeyTag<'a>> for SStr {
    fn from(v: BadKeyTag<'a>) -> Self {
        SStr::from(v.0)
    }
}

/// A user-defined well-known qualifier whose KEY is valid but not lower-case (the typed accessors
/// must treat it like any other spelling of `build_tag`).
pub struct BuildTag<'a>(pub &'a str);
impl purl::qualifiers::well_known::KnownQualifierKey for BuildTag<'_> {
    const KEY: &'static str = "Build_Tag";
}
impl<'a> From<&'a str> for BuildTag<'a> {
    fn from(v: &'a str) -> Self {
        BuildTag(v)
    }
}
impl<'a> From<BuildTag<'a>> for SStr {
    fn from(v: BuildTag<'a>) -> Self {
        SStr::from(v.0)
    }
}

#[derive(Clone, Copy, Debug, PartialEq, Eq, Hash, PartialOrd, Ord)]
pub enum Tier {
    Quick,
    Thorough,
}

/// Error classes of C05.
#[derive(Clone, Copy, Debug, PartialEq, Eq, Hash, PartialOrd, Ord)]
pub enum ErrClass {
    Scheme,
    NoType,
    BadType,
    NoName,
    Qualifier,
    Escape,
    Unsupported,
    NoNamespace,
    /// an error value that C05 does not name (e.g. a MissingRequiredField of another field, or a
    /// typed error that is not wrapped the way the property says)
    Other,
}

impl ErrClass {
    pub fn bit(self) -> u32 {
        1 << (self as u32)
    }
    pub fn name(self) -> &'static str {
        match self {
            ErrClass::Scheme => "UnsupportedUrlScheme",
            ErrClass::NoType => "MissingRequiredField(PackageType)",
            ErrClass::BadType => "InvalidPackageType",
            ErrClass::NoName => "MissingRequiredField(Name)",
            ErrClass::Qualifier => "InvalidQualifier",
            ErrClass::Escape => "InvalidEscape",
            ErrClass::Unsupported => "UnsupportedType",
            ErrClass::NoNamespace => "MissingRequiredField(Namespace)",
            ErrClass::Other => "other",
        }
    }
    pub const ALL: [ErrClass; 9] = [
        ErrClass::Scheme,
        ErrClass::NoType,
        ErrClass::BadType,
        ErrClass::NoName,
        ErrClass::Qualifier,
        ErrClass::Escape,
        ErrClass::Unsupported,
        ErrClass::NoNamespace,
        ErrClass::Other,
    ];
}

pub fn classify_parse_error(e: &ParseError) -> ErrClass {
    match e {
        ParseError::UnsupportedUrlScheme => ErrClass::Scheme,
        ParseError::MissingRequiredField(PurlField::PackageType) => ErrClass::NoType,
        ParseError::MissingRequiredField(PurlField::Name) => ErrClass::NoName,
        ParseError::MissingRequiredField(_) => ErrClass::Other,
        ParseError::InvalidPackageType => ErrClass::BadType,
        ParseError::InvalidQualifier => ErrClass::Qualifier,
        ParseError::InvalidEscape => ErrClass::Escape,
    }
}

/// A built-in type parameter of `GenericPurl`.
pub trait Flavor: PurlShape + Clone + Eq + Hash + Ord + Debug + Sized {
    const NAME: &'static str;
    const TYPED: bool = false;
    fn classify(e: &Self::Error) -> ErrClass;
    fn err_text(e: &Self::Error) -> String;
    fn mk(ty: &str) -> Option<Self>;
}

/// A flavour that the parser can produce.
pub trait PFlavor: Flavor {
    fn parse(s: &str) -> Result<GenericPurl<Self>, Self::Error>;
}

impl Flavor for String {
    const NAME: &'static str = "String";
    fn classify(e: &ParseError) -> ErrClass {
        classify_parse_error(e)
    }
    fn err_text(e: &ParseError) -> String {
        e.to_string()
    }
    fn mk(ty: &str) -> Option<Self> {
        Some(ty.to_owned())
    }
}
impl PFlavor for String {
    fn parse(s: &str) -> Result<GenericPurl<Self>, ParseError> {
        GenericPurl::<String>::from_str(s)
    }
}

impl Flavor for Cow<'static, str> {
    const NAME: &'static str = "Cow";
    fn classify(e: &ParseError) -> ErrClass {
        classify_parse_error(e)
    }
    fn err_text(e: &ParseError) -> String {
        e.to_string()
    }
    fn mk(ty: &str) -> Option<Self> {
        Some(Cow::Owned(ty.to_owned()))
    }
}

#[cfg(feature = "smart")]
impl Flavor for purl::SmallString {
    const NAME: &'static str = "SmallString";
    fn classify(e: &ParseError) -> ErrClass {
        classify_parse_error(e)
    }
    fn err_text(e: &ParseError) -> String {
        e.to_string()
    }
    fn mk(ty: &str) -> Option<Self> {
        Some(purl::SmallString::from(ty))
    }
}
#[cfg(feature = "smart")]
impl PFlavor for purl::SmallString {
    fn parse(s: &str) -> Result<GenericPurl<Self>, ParseError> {
        GenericPurl::<purl::SmallString>::from_str(s)
    }
}

#[cfg(feature = "typed")]
impl Flavor for purl::PackageType {
    const NAME: &'static str = "PackageType";
    const TYPED: bool = true;
    fn classify(e: &purl::PackageError) -> ErrClass {
        match e {
            purl::PackageError::Parse(p) => classify_parse_error(p),
            purl::PackageError::MissingRequiredField(PurlField::Namespace) => ErrClass::NoNamespace,
            purl::PackageError::MissingRequiredField(_) => ErrClass::Other,
            purl::PackageError::UnsupportedType => ErrClass::Unsupported,
        }
    }
    fn err_text(e: &purl::PackageError) -> String {
        e.to_string()
    }
    fn mk(ty: &str) -> Option<Self> {
        purl::PackageType::from_str(ty).ok()
    }
}
#[cfg(feature = "typed")]
impl PFlavor for purl::PackageType {
    fn parse(s: &str) -> Result<GenericPurl<Self>, purl::PackageError> {
        purl::Purl::from_str(s)
    }
}

/// What the accessors of a PURL report.
#[derive(Clone, Debug, PartialEq, Eq, Hash, PartialOrd, Ord)]
pub struct Obs {
    pub ty: String,
    pub ns: Option<String>,
    pub name: String,
    pub version: Option<String>,
    pub quals: Vec<(String, String)>,
    pub subpath: Option<String>,
}

pub fn observe<T: PurlShape>(p: &GenericPurl<T>) -> Obs {
    Obs {
        ty: p.package_type().package_type().into_owned(),
        ns: p.namespace().map(str::to_owned),
        name: p.name().to_owned(),
        version: p.version().map(str::to_owned),
        quals: p.qualifiers().iter().map(|(k, v)| (k.as_str().to_owned(), v.to_owned())).collect(),
        subpath: p.subpath().map(str::to_owned),
    }
}

/// A component tuple in the sense of C02 (reference side).
#[derive(Clone, Debug, PartialEq, Eq, Hash, PartialOrd, Ord, Default)]
pub struct Tuple {
    pub ty: String,
    pub ns: Vec<String>,
    pub name: String,
    pub version: Option<String>,
    pub quals: BTreeMap<String, String>,
    pub subpath: Vec<String>,
}

impl Tuple {
    pub fn to_obs(&self) -> Obs {
        Obs {
            ty: self.ty.clone(),
            ns: if self.ns.is_empty() { None } else { Some(self.ns.join("/")) },
            name: self.name.clone(),
            version: self.version.clone().filter(|v| !v.is_empty()),
            quals: self.quals.iter().map(|(k, v)| (k.clone(), v.clone())).collect(),
            subpath: if self.subpath.is_empty() { None } else { Some(self.subpath.join("/")) },
        }
    }
}

pub fn h64<H: Hash + ?Sized>(v: &H) -> u64 {
    // FNV-1a over the std Hash stream: deterministic across runs (no random seed).
    struct Fnv(u64);
    impl Hasher for Fnv {
        fn finish(&self) -> u64 {
            self.0
        }
        fn write(&mut self, bytes: &[u8]) {
            for b in bytes {
                self.0 ^= *b as u64;
                self.0 = self.0.wrapping_mul(0x100000001b3);
            }
        }
    }
    let mut h = Fnv(0xcbf29ce484222325);
    v.hash(&mut h);
    // final avalanche so that low bits are usable
    let mut x = h.0;
    x ^= x >> 33;
    x = x.wrapping_mul(0xff51afd7ed558ccd);
    x ^= x >> 33;
    x
}

/// Run `f`, converting an unwind into `Err(message)`.
pub fn guarded<R>(f: impl FnOnce() -> R) -> Result<R, String> {
    match catch_unwind(AssertUnwindSafe(f)) {
        Ok(r) => Ok(r),
        Err(e) => Err(if let Some(s) = e.downcast_ref::<&str>() {
            (*s).to_owned()
        } else if let Some(s) = e.downcast_ref::<String>() {
            s.clone()
        } else {
            "non-string panic payload".to_owned()
        }),
    }
}

#[derive(Clone, Debug)]
pub struct Violation {
    pub prop: &'static str,
    /// short machine-readable kind, e.g. "roundtrip-reject"
    pub kind: String,
    /// how to reproduce: a JSON object; always has "engine" and the minimal case
    pub case: Value,
    pub detail: String,
}

/// Per-thread accumulator; merged in deterministic order.
#[derive(Default)]
pub struct Acc {
    pub evals: u64,
    pub accepted: u64,
    pub rejected: u64,
    pub judged: u64,
    pub unjudged: u64,
    pub nontrivial: u64,
    pub calls: u64,
    pub sigs: BTreeSet<u64>,
    pub counters: BTreeMap<&'static str, u64>,
    pub samples: Vec<Value>,
    pub violations: Vec<Violation>,
    pub violation_count: u64,
    pub sample_cap: usize,
}

pub const VIOLATION_KEEP: usize = 400;

impl Acc {
    pub fn new() -> Self {
        Acc { sample_cap: 6, ..Default::default() }
    }
    pub fn count(&mut self, k: &'static str) {
        *self.counters.entry(k).or_insert(0) += 1;
    }
    pub fn add(&mut self, k: &'static str, n: u64) {
        *self.counters.entry(k).or_insert(0) += n;
    }
    pub fn sig<H: Hash>(&mut self, v: &H) {
        if self.sigs.len() < 200_000 {
            self.sigs.insert(h64(v));
        }
    }
    pub fn sample(&mut self, v: impl FnOnce() -> Value) {
        if self.samples.len() < self.sample_cap {
            self.samples.push(v());
        }
    }
    pub fn violate(&mut self, v: Violation) {
        self.violation_count += 1;
        // keep some of EVERY kind (a flood of one kind must not push out the only counter-example of
        // another kind, e.g. the replayable one of a later stage)
        let same = self.violations.iter().filter(|x| x.prop == v.prop && x.kind == v.kind).count();
        if (self.violations.len() < VIOLATION_KEEP && same < 60) || same < 12 {
            self.violations.push(v);
        }
    }
    pub fn merge(&mut self, o: Acc) {
        self.evals += o.evals;
        self.accepted += o.accepted;
        self.rejected += o.rejected;
        self.judged += o.judged;
        self.unjudged += o.unjudged;
        self.nontrivial += o.nontrivial;
        self.calls += o.calls;
        self.sigs.extend(o.sigs);
        for (k, v) in o.counters {
            *self.counters.entry(k).or_insert(0) += v;
        }
        for s in o.samples {
            if self.samples.len() < 400 {
                self.samples.push(s);
            }
        }
        self.violation_count += o.violation_count;
        for v in o.violations {
            let same = self.violations.iter().filter(|x| x.prop == v.prop && x.kind == v.kind).count();
            if (self.violations.len() < VIOLATION_KEEP * 4 && same < 240) || same < 24 {
                self.violations.push(v);
            }
        }
    }
}

/// Run `work(i, &mut Acc)` for i in 0..n on all cores; merge accumulators in index order of the
/// worker that finished the item (the merged counts are order independent; violations are sorted
/// afterwards by their serialised case so output is reproducible).
pub fn par_items(n: usize, threads: usize, work: impl Fn(usize, &mut Acc) + Sync) -> Acc {
    use std::sync::atomic::{AtomicUsize, Ordering};
    let next = AtomicUsize::new(0);
    let out = Mutex::new(Vec::<Acc>::new());
    std::thread::scope(|sc| {
        for _ in 0..threads.max(1) {
            sc.spawn(|| {
                let mut acc = Acc::new();
                loop {
                    let i = next.fetch_add(1, Ordering::Relaxed);
                    if i >= n {
                        break;
                    }
                    work(i, &mut acc);
                }
                out.lock().unwrap().push(acc);
            });
        }
    });
    let mut total = Acc::new();
    for a in out.into_inner().unwrap() {
        total.merge(a);
    }
    total.violations.sort_by(|a, b| {
        (a.case.to_string().len(), a.case.to_string()).cmp(&(b.case.to_string().len(), b.case.to_string()))
    });
    total
}

pub fn threads() -> usize {
    std::env::var("VERIF_THREADS")
        .ok()
        .and_then(|v| v.parse().ok())
        .unwrap_or_else(|| std::thread::available_parallelism().map(|n| n.get()).unwrap_or(4))
}

// ---------------------------------------------------------------------------------------------
// Known findings

#[derive(Clone, Debug)]
pub struct KnownFinding {
    pub id: String,
    pub property: String,
    pub status: String,
    pub matcher: String,
    pub what: String,
}

pub fn load_known_findings(path: &str) -> Vec<KnownFinding> {
    let Ok(text) = std::fs::read_to_string(path) else {
        return Vec::new();
    };
    let v: Value = serde_json::from_str(&text).expect("known_findings.json is not valid JSON");
    let mut out = Vec::new();
    for e in v["findings"].as_array().cloned().unwrap_or_default() {
        out.push(KnownFinding {
            id: e["id"].as_str().unwrap_or("").to_owned(),
            property: e["property"].as_str().unwrap_or("").to_owned(),
            status: e["status"].as_str().unwrap_or("").to_owned(),
            matcher: e["matcher"].as_str().unwrap_or("").to_owned(),
            what: e["what"].as_str().unwrap_or("").to_owned(),
        });
    }
    out
}

/// Committed matchers: a predicate over one violation record that characterises one specific
/// defect. Only consulted for findings whose status is "open".
pub fn matcher_accepts(name: &str, v: &Violation) -> bool {
    let case = v.case.to_string();
    match name {
        // F1: `&` written raw in a qualifier value by Display
        "amp-in-qualifier-value" => {
            (v.kind.starts_with("roundtrip") || v.kind.starts_with("render") || v.kind.starts_with("builder-reparse") || v.kind.starts_with("string-eq"))
                && v.detail.contains("qualifier value contains '&'")
        },
        // F2: empty Checksum to text
        "empty-checksum-capacity" => v.kind == "panic" && case.contains("Checksum::default") && v.detail.contains("overflow"),
        // F3: titlecase scalars not lower-cased
        "titlecase-not-lowered" => v.detail.contains("titlecase"),
        // F4: maven namespace made only of '/'
        "maven-slash-namespace" => v.detail.contains("maven namespace without a non-empty segment"),
        _ => false,
    }
}

// ---------------------------------------------------------------------------------------------
// Reporting

pub struct Report {
    pub prop: &'static str,
    pub level: &'static str,
    pub tier: Tier,
    pub seed: i64,
    pub rule: String,
    pub exhaustive: bool,
    pub bounds: Value,
    pub assumptions: Vec<String>,
    pub extra: BTreeMap<String, Value>,
    pub states: Option<u64>,
    pub transitions: Option<u64>,
    pub traces_validated: Option<u64>,
}

pub fn verif_root() -> String {
    std::env::var("VERIF_ROOT").unwrap_or_else(|_| "/verif".to_owned())
}

/// Finish a check: replay violations twice, apply known findings, write evidence, print verdict
/// lines, return the process exit code.
pub fn finish(
    rep: Report,
    acc: Acc,
    started: std::time::Instant,
    replayer: &dyn Fn(&Value) -> Option<Vec<Violation>>,
    // for a case that does not reproduce in isolation: search for a preceding operation after which
    // it does (the failure then depends on hidden state left behind by an earlier call); returns the
    // extended, replayable case
    context_search: &dyn Fn(&Value) -> Option<Value>,
) -> i32 {
    let root = verif_root();
    let known = load_known_findings(&format!("{root}/known_findings.json"));
    let mut exit = 0;
    let mut new_violations: Vec<&Violation> = Vec::new();
    let mut known_hits: BTreeMap<String, (String, u64)> = BTreeMap::new();
    let mut other_prop = 0u64;
    for v in &acc.violations {
        if v.prop != rep.prop {
            other_prop += 1;
            continue;
        }
        let mut matched = false;
        for k in &known {
            if k.property == rep.prop && k.status == "open" && matcher_accepts(&k.matcher, v) {
                let e = known_hits.entry(k.id.clone()).or_insert((k.what.clone(), 0));
                e.1 += 1;
                matched = true;
                break;
            }
        }
        if !matched {
            new_violations.push(v);
        }
    }
    // vacuity: a run with a single distinct outcome decides nothing
    let vacuous = acc.sigs.len() < 2;
    let mut replay_paths = Vec::new();
    let mut machinery_error: Option<String> = None;
    if !new_violations.is_empty() {
        let _ = std::fs::create_dir_all(format!("{root}/replays"));
        // group by kind, keep the first (shortest) of each kind, at most 12 files
        // per kind: the first (shortest) case that reproduces is reported; a case that does not
        // reproduce in isolation (its failure depended on what the worker thread had done before)
        // makes way for the next candidate of its kind, up to six
        let mut seen_kinds: HashSet<String> = HashSet::new();
        let mut tried: std::collections::HashMap<String, usize> = std::collections::HashMap::new();
        for v in &new_violations {
            if seen_kinds.contains(&v.kind) || replay_paths.len() >= 12 {
                continue;
            }
            let t = tried.entry(v.kind.clone()).or_insert(0);
            if *t >= 6 {
                continue;
            }
            *t += 1;
            // re-execute from the recorded case: twice, and both runs must agree. If they do not (or
            // the violation does not show), the one nondeterminism the library has - the seeding of the
            // hash map inside Checksum - may be involved: retry, and report the violation if it shows
            // again at least once (the replay file says how often); only a violation that never
            // reproduces is a machinery error.
            let digest = |r: &Option<Vec<Violation>>| {
                r.as_ref().map(|vs| {
                    let mut k: Vec<String> = vs.iter().filter(|x| x.prop == rep.prop).map(|x| format!("{}|{}", x.kind, x.detail)).collect();
                    k.sort();
                    k
                })
            };
            let r1 = guarded(|| replayer(&v.case)).unwrap_or(None);
            let r2 = guarded(|| replayer(&v.case)).unwrap_or(None);
            let (d1, d2) = (digest(&r1), digest(&r2));
            let mut reproduced = String::from("2/2");
            let stable = d1 == d2 && d1.as_ref().map(|d| !d.is_empty()).unwrap_or(true);
            if !stable {
                let mut hits = 0;
                let tries = 30;
                for _ in 0..tries {
                    let r = guarded(|| replayer(&v.case)).unwrap_or(None);
                    if digest(&r).map(|d| !d.is_empty()).unwrap_or(false) {
                        hits += 1;
                    }
                }
                if hits == 0 {
                    // not reproducible from the case alone: does it depend on what was called before?
                    if let Ok(Some(ext)) = guarded(|| context_search(&v.case)) {
                        let path = format!("{root}/replays/{}-{}.json", rep.prop, replay_paths.len());
                        let body = json!({
                            "property": rep.prop,
                            "kind": v.kind,
                            "case": ext,
                            "detail": format!("{} [only after the recorded history on the same thread: hidden state survives a call]", v.detail),
                            "replayed_twice": true,
                            "reproduced": "2/2 (after the recorded history; 0/32 in isolation)",
                        });
                        std::fs::write(&path, serde_json::to_string_pretty(&body).unwrap()).expect("cannot write replay");
                        replay_paths.push(path);
                        seen_kinds.insert(v.kind.clone());
                        continue;
                    }
                    machinery_error = Some(format!("violation did not reproduce in {} replays: {} ({})", tries + 2, v.case, v.detail));
                    continue;
                }
                reproduced = format!("{hits}/{tries} (nondeterministic: the outcome depends on the library's hash-map seeding)");
            }
            let path = format!("{root}/replays/{}-{}.json", rep.prop, replay_paths.len());
            let body = json!({
                "property": rep.prop,
                "kind": v.kind,
                "case": v.case,
                "detail": v.detail,
                "replayed_twice": d1.is_some(),
                "reproduced": reproduced,
            });
            std::fs::write(&path, serde_json::to_string_pretty(&body).unwrap()).expect("cannot write replay");
            replay_paths.push(path);
            seen_kinds.insert(v.kind.clone());
        }
    }
    for (id, (what, n)) in &known_hits {
        println!("KNOWN-FINDING: property={} {} [{}; {} recorded cases]", rep.prop, what, id, n);
    }
    if !replay_paths.is_empty() {
        exit = 1;
        for p in &replay_paths {
            println!("VIOLATION property={} replay={}", rep.prop, p);
        }
        for v in new_violations.iter().take(8) {
            println!("  {}: {} -- {}", v.kind, v.case, v.detail);
        }
    }
    if let Some(m) = &machinery_error {
        println!("MACHINERY: {m}");
        if exit == 0 {
            exit = 2;
        }
    }
    if vacuous && exit == 0 {
        println!("MACHINERY: vacuous run (fewer than 2 distinct outcomes)");
        exit = 2;
    }
    let wall = started.elapsed().as_secs_f64();
    let mut cov = serde_json::Map::new();
    cov.insert("evaluations".into(), json!(acc.evals));
    cov.insert("distinct_nontrivial".into(), json!(acc.nontrivial));
    cov.insert("rule".into(), json!(rep.rule));
    // samples: spread over all stages (the list is in stage order)
    let ns = acc.samples.len();
    let step = (ns / 16).max(1);
    cov.insert("samples".into(), Value::Array(acc.samples.iter().step_by(step).take(20).cloned().collect()));
    cov.insert("exhaustive".into(), json!(rep.exhaustive));
    cov.insert("accepted".into(), json!(acc.accepted));
    cov.insert("rejected".into(), json!(acc.rejected));
    cov.insert("judged_by_reference".into(), json!(acc.judged));
    cov.insert("unjudged_by_reference".into(), json!(acc.unjudged));
    cov.insert("library_calls".into(), json!(acc.calls));
    cov.insert("distinct_outcome_signatures".into(), json!(acc.sigs.len()));
    cov.insert("bounds".into(), rep.bounds.clone());
    cov.insert("counters".into(), json!(acc.counters));
    cov.insert("violations_of_other_properties_seen_as_diagnostics".into(), json!(other_prop));
    cov.insert("known_finding_hits".into(), json!(known_hits.iter().map(|(k, v)| (k.clone(), v.1)).collect::<BTreeMap<_, _>>()));
    if let Some(s) = rep.states {
        cov.insert("states".into(), json!(s));
    }
    if let Some(s) = rep.transitions {
        cov.insert("transitions".into(), json!(s));
    }
    if let Some(s) = rep.traces_validated {
        cov.insert("traces_validated_against_impl".into(), json!(s));
    }
    for (k, v) in rep.extra {
        cov.insert(k, v);
    }
    let ev = json!({
        "property_id": rep.prop,
        "tier": match rep.tier { Tier::Quick => "quick", Tier::Thorough => "thorough" },
        "seed": rep.seed,
        "level": rep.level,
        "coverage": Value::Object(cov),
        "assumptions": rep.assumptions,
        "wall_s": (wall * 1000.0).round() / 1000.0,
        "violations": new_violations.len() as u64 + acc.violation_count.saturating_sub(acc.violations.len() as u64),
    });
    let _ = std::fs::create_dir_all(format!("{root}/evidence"));
    let path = format!("{root}/evidence/{}.json", rep.prop);
    std::fs::write(&path, serde_json::to_string_pretty(&ev).unwrap() + "\n").expect("cannot write evidence");
    println!(
        "{} {}: evaluations={} nontrivial={} signatures={} violations={} wall={:.1}s exit={}",
        rep.prop,
        match rep.tier { Tier::Quick => "quick", Tier::Thorough => "thorough" },
        acc.evals,
        acc.nontrivial,
        acc.sigs.len(),
        new_violations.len(),
        wall,
        exit
    );
    exit
}

// ---------------------------------------------------------------------------------------------
// Watchdog (C06: "... or fails to terminate"): every worker publishes the input it is working on;
// a monitor thread reports an input that has been in progress for longer than the limit.

pub struct WatchSlot {
    /// milliseconds since process start at which the current evaluation began; 0 = idle
    since_ms: std::sync::atomic::AtomicU64,
    text: Mutex<String>,
}

static WATCH_SLOTS: Mutex<Vec<std::sync::Arc<WatchSlot>>> = Mutex::new(Vec::new());
static WATCH_ON: std::sync::atomic::AtomicBool = std::sync::atomic::AtomicBool::new(false);

thread_local! {
    static MY_SLOT: std::sync::Arc<WatchSlot> = {
        let s = std::sync::Arc::new(WatchSlot { since_ms: std::sync::atomic::AtomicU64::new(0), text: Mutex::new(String::new()) });
        WATCH_SLOTS.lock().unwrap().push(s.clone());
        s
    };
}

fn now_ms() -> u64 {
    static START: std::sync::OnceLock<std::time::Instant> = std::sync::OnceLock::new();
    START.get_or_init(std::time::Instant::now).elapsed().as_millis() as u64 + 1
}

/// Publish the input about to be evaluated (no-op unless the watchdog is on).
pub fn watch_begin(input: &str) {
    use std::sync::atomic::Ordering;
    if !WATCH_ON.load(Ordering::Relaxed) {
        return;
    }
    MY_SLOT.with(|s| {
        let mut t = s.text.lock().unwrap();
        t.clear();
        // long inputs: keep the head and the length (the pumping family is regenerated by index)
        if input.len() > 4096 {
            let mut cut = 256;
            while !input.is_char_boundary(cut) {
                cut -= 1;
            }
            t.push_str(&input[..cut]);
            t.push_str(&format!("...<{} bytes>", input.len()));
        } else {
            t.push_str(input);
        }
        s.since_ms.store(now_ms(), Ordering::Relaxed);
    });
}

pub fn watch_end() {
    use std::sync::atomic::Ordering;
    if !WATCH_ON.load(Ordering::Relaxed) {
        return;
    }
    MY_SLOT.with(|s| s.since_ms.store(0, Ordering::Relaxed));
}

/// Start the monitor thread: an evaluation in progress for more than `limit_s` seconds is reported as
/// a C06 violation (replay file with the input) and the process exits with 1.
pub fn start_watchdog(prop: &'static str, limit_s: u64) {
    use std::sync::atomic::Ordering;
    WATCH_ON.store(true, Ordering::Relaxed);
    let _ = now_ms();
    std::thread::spawn(move || loop {
        std::thread::sleep(std::time::Duration::from_secs(5));
        let now = now_ms();
        let slots = WATCH_SLOTS.lock().unwrap().clone();
        for s in slots {
            let since = s.since_ms.load(Ordering::Relaxed);
            if since != 0 && now.saturating_sub(since) > limit_s * 1000 {
                let input = s.text.lock().unwrap().clone();
                let root = verif_root();
                let _ = std::fs::create_dir_all(format!("{root}/replays"));
                let path = format!("{root}/replays/{prop}-hang.json");
                let body = json!({"property": prop, "kind": "hang", "case": {"engine": "string", "flavor": "any", "input": input},
                                  "detail": format!("one input has been in progress for more than {limit_s} s"), "replayed_twice": false});
                let _ = std::fs::write(&path, serde_json::to_string_pretty(&body).unwrap());
                println!("VIOLATION property={prop} replay={path}");
                println!("  hang: an evaluation did not terminate within {limit_s} s: {:?}", input.chars().take(120).collect::<String>());
                std::process::exit(1);
            }
        }
    });
}
