//! Engine A — token-language explorer. A lens is (prefixes, uniquely decodable alphabet, bound,
//! suffixes); its language is { P·t1…tk·S | k ≤ n }. Every node of the token tree is evaluated.

use crate::common::{par_items, threads, Acc, Tier};

#[derive(Clone, Debug)]
pub struct Lens {
    pub name: &'static str,
    pub prefixes: Vec<&'static str>,
    pub alphabet: Vec<&'static str>,
    pub suffixes: Vec<&'static str>,
    pub n_quick: usize,
    pub n_thorough: usize,
}

impl Lens {
    pub fn bound(&self, tier: Tier) -> usize {
        match tier {
            Tier::Quick => self.n_quick,
            Tier::Thorough => self.n_thorough,
        }
    }
    /// number of strings of the lens at bound n
    pub fn size(&self, n: usize) -> u64 {
        let a = self.alphabet.len() as u64;
        let mut total = 0u64;
        let mut p = 1u64;
        for _ in 0..=n {
            total += p;
            p = p.saturating_mul(a);
        }
        total * self.prefixes.len() as u64 * self.suffixes.len() as u64
    }
    /// Is `s` a string of this lens at bound n? (used to count strings shared by two lenses once)
    pub fn contains(&self, s: &str, n: usize) -> bool {
        for p in &self.prefixes {
            let Some(rest) = s.strip_prefix(p) else { continue };
            for suf in &self.suffixes {
                let Some(mid) = rest.strip_suffix(suf) else { continue };
                if self.tokenizable(mid, n) {
                    return true;
                }
            }
        }
        false
    }
    fn tokenizable(&self, mid: &str, n: usize) -> bool {
        let b = mid.as_bytes();
        // min number of tokens to reach each byte offset
        let mut best = vec![usize::MAX; b.len() + 1];
        best[0] = 0;
        for i in 0..b.len() {
            if best[i] == usize::MAX {
                continue;
            }
            for t in &self.alphabet {
                let tb = t.as_bytes();
                if b.len() - i >= tb.len() && &b[i..i + tb.len()] == tb {
                    let c = best[i] + 1;
                    if c < best[i + tb.len()] {
                        best[i + tb.len()] = c;
                    }
                }
            }
        }
        best[b.len()] <= n
    }

    /// Sardinas–Patterson test: is the alphabet uniquely decodable?
    pub fn uniquely_decodable(&self) -> bool {
        use std::collections::BTreeSet;
        let code: BTreeSet<&[u8]> = self.alphabet.iter().map(|t| t.as_bytes()).collect();
        if code.len() != self.alphabet.len() || code.contains(&b""[..]) {
            return false;
        }
        // dangling suffixes
        let mut s: BTreeSet<Vec<u8>> = BTreeSet::new();
        for a in &code {
            for b in &code {
                if a != b && b.len() > a.len() && &b[..a.len()] == *a {
                    s.insert(b[a.len()..].to_vec());
                }
            }
        }
        let mut all = s.clone();
        loop {
            let mut next: BTreeSet<Vec<u8>> = BTreeSet::new();
            for d in &s {
                if code.contains(&d[..]) {
                    return false;
                }
                for c in &code {
                    if c.len() > d.len() && &c[..d.len()] == &d[..] {
                        next.insert(c[d.len()..].to_vec());
                    }
                    if d.len() > c.len() && &d[..c.len()] == *c {
                        next.insert(d[c.len()..].to_vec());
                    }
                }
            }
            let fresh: BTreeSet<Vec<u8>> = next.difference(&all).cloned().collect();
            if fresh.is_empty() {
                return true;
            }
            all.extend(fresh.iter().cloned());
            s = fresh;
        }
    }
}

fn dfs(l: &Lens, buf: &mut String, depth: usize, n: usize, suffix: &str, f: &(impl Fn(&str, &mut Acc) + Sync), acc: &mut Acc) {
    let len = buf.len();
    buf.push_str(suffix);
    f(buf, acc);
    buf.truncate(len);
    if depth == n {
        return;
    }
    for t in &l.alphabet {
        buf.push_str(t);
        dfs(l, buf, depth + 1, n, suffix, f, acc);
        buf.truncate(len);
    }
}

/// Evaluate `f` on every node of the lens up to n tokens, on all cores.
pub fn explore(l: &Lens, n: usize, f: impl Fn(&str, &mut Acc) + Sync) -> Acc {
    assert!(l.uniquely_decodable(), "alphabet of lens {} is not uniquely decodable", l.name);
    let a = l.alphabet.len();
    // work items: (prefix, suffix, k) where k < a*a selects the first two tokens, k == a*a the shallow nodes
    let split = if n >= 2 { a * a } else { 0 };
    let per = split + 1;
    let items = l.prefixes.len() * l.suffixes.len() * per;
    par_items(items, threads(), |i, acc| {
        let ps = i / per;
        let k = i % per;
        let prefix = l.prefixes[ps / l.suffixes.len()];
        let suffix = l.suffixes[ps % l.suffixes.len()];
        let mut buf = String::with_capacity(128);
        buf.push_str(prefix);
        if k == split {
            // shallow part: depth 0 and (if n>=2) depth 1 only; if n<2 the whole tree
            let lim = if n >= 2 { 1 } else { n };
            dfs(l, &mut buf, 0, lim, suffix, &f, acc);
        } else {
            buf.push_str(l.alphabet[k / a]);
            buf.push_str(l.alphabet[k % a]);
            dfs(l, &mut buf, 2, n, suffix, &f, acc);
        }
    })
}

const SP: &str = " ";

pub fn all_lenses() -> Vec<Lens> {
    vec![
        Lens {
            name: "A1a-separators-fine",
            prefixes: vec!["pkg:t/"],
            alphabet: vec!["/", "@", "?", "#", "&", "=", "a", "b", "%2F", "%2f", "%40", "%3F", "%23", "%26", "%3D", "%25"],
            suffixes: vec![""],
            n_quick: 5,
            n_thorough: 7,
        },
        Lens {
            name: "A1b-separators-macro",
            prefixes: vec!["pkg:t/"],
            alphabet: vec!["ns/", "n", "@1", "?k=v", "&l=w", "#s", "/", "@", "?", "#", "=", "%2F", "%40", "%3F", "%23", "%26"],
            suffixes: vec![""],
            n_quick: 5,
            n_thorough: 7,
        },
        Lens {
            name: "A2-type",
            prefixes: vec!["pkg:"],
            alphabet: vec!["t", "T", "1", "+", ".", "-", "_", "%", "é", SP, "/", ":"],
            suffixes: vec!["/n", "", "/n@1?k=v#s"],
            n_quick: 4,
            n_thorough: 6,
        },
        Lens {
            name: "A2s-scheme",
            prefixes: vec![""],
            alphabet: vec!["pkg:", "PKG:", "pkg", "http:", "/", "t", "n", "x", SP, "@", "?", "#"],
            suffixes: vec!["", "t/n"],
            n_quick: 4,
            n_thorough: 6,
        },
        Lens {
            name: "A3-dot-segments",
            prefixes: vec!["pkg:t/", "pkg:t/n#"],
            alphabet: vec!["/", ".", "%2e", "%2E", "%2F", "%2f", "%5C", "a", "#", "@"],
            suffixes: vec![""],
            n_quick: 5,
            n_thorough: 7,
        },
        Lens {
            name: "A4-utf8",
            prefixes: vec!["pkg:t/", "pkg:t/x/", "pkg:t/n@", "pkg:t/n?k=", "pkg:t/n#"],
            alphabet: vec![
                "%C3", "%A9", "%c3", "%a9", "%E2", "%82", "%AC", "%F0", "%9F", "%98", "%80", "%ED", "%A0", "%C0", "%AF", "%F4", "%90", "%FF", "é", "a",
                "%", "%4", "%zz", "/",
            ],
            suffixes: vec![""],
            n_quick: 3,
            n_thorough: 5,
        },
        Lens {
            name: "A5a-qualifiers-fine",
            prefixes: vec!["pkg:t/n?"],
            alphabet: vec!["a", "A", "z", "Z", "=", "&", "9", "%26", "%3D", "%41", ".", "-", "_", "!", "+", "%20", SP],
            suffixes: vec![""],
            n_quick: 5,
            n_thorough: 7,
        },
        Lens {
            name: "A5b-qualifiers-macro",
            prefixes: vec!["pkg:t/n?"],
            alphabet: vec!["a=1", "A=2", "b=", "b=3", "ab=4", "a_=5", "Z=6", "z=7", "c=x%26y", "a=%41", "!=1", "&", "a", "=", "%26"],
            suffixes: vec!["", "#s"],
            n_quick: 5,
            n_thorough: 7,
        },
        Lens {
            name: "A6-checksum-macro",
            prefixes: vec!["pkg:t/n?checksum=", "pkg:t/n?CheckSum="],
            alphabet: vec!["a:", "A:", "a1:", "b:", "é:", "É:", "ǅ:", "x", ":", ",", "00", "fF", "7", "g", "%3A", "%2C", "%26", "%2541", " a:"],
            suffixes: vec![""],
            n_quick: 5,
            n_thorough: 7,
        },
        Lens {
            // components that cross the 23-byte inline capacity of the small string type: a 20-byte
            // filler, then up to n tokens
            name: "A10-length-threshold",
            prefixes: vec![
                "pkg:pypi/aaaaaaaaaaaaaaaaaaaa",
                "pkg:nuget/Bbbbbbbbbbbbbbbbbbbb",
                "pkg:t/cccccccccccccccccccc",
                "pkg:t/dddddddddddddddddddddd/d",
                "pkg:t/n@11111111111111111111",
                "pkg:t/n?k=vvvvvvvvvvvvvvvvvvvv",
                "pkg:t/n?checksum=a:00000000000000000000",
                "pkg:t/n#ssssssssssssssssssss",
            ],
            alphabet: vec!["a", "A", "-", "_", ".", "É", "/", "0", "%2f"],
            suffixes: vec![""],
            n_quick: 5,
            n_thorough: 7,
        },
        Lens {
            // double encoding: components whose DECODED text looks like an escape (%40, %2F, %2e, %41)
            // or ends in a bare '%'. Exactly one decoding step may be applied, by every type.
            name: "A12-double-encoding",
            prefixes: vec!["pkg:t/", "pkg:npm/", "pkg:maven/", "pkg:t/n@", "pkg:t/n?k=", "pkg:t/n#", "pkg:golang/g/n#", "pkg:pypi/"],
            alphabet: vec!["%2540", "%252F", "%252e", "%2541", "%25", "/", "a", ".", "@", "%40", "%2F", "%", "%4"],
            suffixes: vec![""],
            n_quick: 5,
            n_thorough: 7,
        },
        Lens {
            // the qualifier keys that mean something to the crate itself (typed accessors exist for them),
            // in several letter cases, with values of the shapes they usually carry
            name: "A14a-well-known-keys",
            prefixes: vec!["pkg:t/n?", "pkg:maven/g/n?", "pkg:gem/n?"],
            alphabet: vec!["repository_url=", "download_url=", "vcs_url=", "file_name=", "checksum=", "classifier=", "type=", "platform=", "Repository_URL=", "CHECKSUM=", "&", "x", "a:00", "https://e.x/a%3Fb", "%20"],
            suffixes: vec![""],
            n_quick: 4,
            n_thorough: 5,
        },
        Lens {
            // real algorithm names (prefixes of each other, with digits and dashes) and real-looking digests
            name: "A14b-real-algorithms",
            prefixes: vec!["pkg:t/n?checksum=", "pkg:cargo/n?checksum="],
            alphabet: vec!["sha1:", "sha256:", "SHA-256:", "sha2:", "md5:", "sha512:", "sha-", "-", "00", "da39a3ee", "ABCD", ",", ":"],
            suffixes: vec![""],
            n_quick: 5,
            n_thorough: 6,
        },
        Lens {
            // artifacts of OTHER encodings as literal text (JSON, HTML, C escapes, a doubly encoded
            // separator): inside a PURL they are ordinary characters
            name: "A15-foreign-escapes",
            prefixes: vec!["pkg:t/n?k=", "pkg:t/n?", "pkg:t/", "pkg:t/n@", "pkg:t/n#"],
            alphabet: vec!["\\u0026", "\\u003D", "\\/", "\\\\", "&amp;", "&#38;", "\\x26", "%2526", "a", "=", "&", "k"],
            suffixes: vec![""],
            n_quick: 4,
            n_thorough: 5,
        },
        Lens {
            // path segments from the vocabulary of the ecosystems (VCS suffixes, major-version
            // directories, snapshots): in a namespace or subpath they are segments like any other
            name: "A16-vocabulary-segments",
            prefixes: vec!["pkg:golang/", "pkg:npm/", "pkg:maven/", "pkg:t/", "pkg:golang/g/n#", "pkg:t/n#"],
            alphabet: vec![".git", "x.git", "v2", "%2Egit", "node_modules", "-SNAPSHOT", "/", "a", ".", "@latest"],
            suffixes: vec![""],
            n_quick: 4,
            n_thorough: 6,
        },
        Lens {
            // four and more qualifiers whose keys share prefixes and differ at '_', '-', '.', a digit or a
            // letter (each token is a whole pair with its separator, so five tokens are five qualifiers)
            name: "A17-key-order",
            prefixes: vec!["pkg:t/n?"],
            alphabet: vec!["a=1&", "a_=2&", "ab=3&", "a_b=4&", "abc=5&", "b=6&", "a-=7&", "a.=8&", "a0=9&", "A_=x&", "AB=y&", "ab_=&"],
            suffixes: vec!["z=0"],
            n_quick: 5,
            n_thorough: 6,
        },
        Lens {
            // version shapes that a per-ecosystem normaliser would touch (v-prefix, build metadata,
            // pre-release, epoch), under every known type: the typed PURL must leave them alone
            name: "A13-typed-versions",
            prefixes: vec!["pkg:nuget/n@", "pkg:pypi/n@", "pkg:npm/n@", "pkg:golang/g/n@", "pkg:maven/g/n@", "pkg:cargo/n@", "pkg:gem/n@", "pkg:t/n@"],
            alphabet: vec!["1", "0", ".", "+", "-", "v", "V", "a", "A", "!", "~", "%2B"],
            suffixes: vec![""],
            n_quick: 4,
            n_thorough: 6,
        },
        Lens {
            name: "A7-typed-names",
            prefixes: vec!["pkg:cargo/", "pkg:gem/", "pkg:golang/", "pkg:maven/", "pkg:npm/", "pkg:nuget/", "pkg:PyPI/", "pkg:pypi/", "pkg:generic/"],
            alphabet: vec!["a", "A", "-", "_", ".", "/", "@", "1", "é", "É", "ǅ", ":"],
            suffixes: vec![""],
            n_quick: 5,
            n_thorough: 7,
        },
    ]
}

/// Copies of a lens under typed prefixes (the lens must have the single prefix `pkg:t/`).
pub fn typed_copy(l: &Lens, shrink: usize) -> Lens {
    let mut c = l.clone();
    let tail: Vec<&'static str> = match l.prefixes[0] {
        "pkg:t/" => vec!["pkg:npm/", "pkg:maven/x/", "pkg:pypi/", "pkg:NuGet/"],
        "pkg:t/n?" => vec!["pkg:npm/n?", "pkg:maven/x/n?", "pkg:pypi/n?"],
        "pkg:t/n?checksum=" => vec!["pkg:npm/n?checksum=", "pkg:maven/x/n?checksum="],
        _ => vec![],
    };
    c.prefixes = tail;
    c.n_quick = l.n_quick.saturating_sub(shrink);
    c.n_thorough = l.n_thorough.saturating_sub(shrink);
    c
}

pub fn lens(name: &str) -> Lens {
    all_lenses().into_iter().find(|l| l.name.starts_with(name)).unwrap_or_else(|| panic!("no lens {name}"))
}

/// A8 — pumping family: deterministic long inputs up to 1 MiB.
pub fn pumping(tier: Tier) -> Vec<String> {
    let kmax: u32 = match tier {
        Tier::Quick => 12,
        Tier::Thorough => 20,
    };
    let mut out = Vec::new();
    let mut toks: Vec<&str> = Vec::new();
    for l in all_lenses() {
        for t in l.alphabet {
            if !toks.contains(&t) {
                toks.push(t);
            }
        }
    }
    // every token repeated 2^k times in every component position
    let frames: [(&str, &str); 8] = [
        ("pkg:", "/n"),
        ("pkg:t/", "/n"),
        ("pkg:t/", ""),
        ("pkg:t/n@", ""),
        ("pkg:t/n?k=", ""),
        ("pkg:t/n?", "=v"),
        ("pkg:t/n#", ""),
        ("pkg:t/n?checksum=a:", ""),
    ];
    for t in &toks {
        let mut k = 0;
        while k <= kmax && (t.len() << k) <= (1 << 20) {
            // keep the quick tier small: only every 4th exponent above 4
            if tier == Tier::Quick && k > 4 && k % 4 != 0 {
                k += 1;
                continue;
            }
            let body = t.repeat(1 << k);
            for (p, s) in frames.iter() {
                let mut x = String::with_capacity(body.len() + 32);
                x.push_str(p);
                x.push_str(&body);
                x.push_str(s);
                out.push(x);
            }
            k += 1;
        }
    }
    // many distinct qualifiers / checksum entries, ascending and descending
    let qmax = match tier {
        Tier::Quick => 10,
        Tier::Thorough => 16,
    };
    for k in [0u32, 4, 8, 10, 12, 14, 16] {
        if k > qmax {
            continue;
        }
        let n = 1usize << k;
        for desc in [false, true] {
            let idx: Vec<usize> = if desc { (0..n).rev().collect() } else { (0..n).collect() };
            let mut q = String::from("pkg:t/n?");
            let mut c = String::from("pkg:t/n?checksum=");
            for (j, i) in idx.iter().enumerate() {
                if j > 0 {
                    q.push('&');
                    c.push(',');
                }
                q.push_str(&format!("k{i:06}=v"));
                c.push_str(&format!("a{i:06}:00"));
            }
            if q.len() <= (1 << 20) + 64 {
                out.push(q);
            }
            if c.len() <= (1 << 20) + 64 {
                out.push(c);
            }
        }
    }
    out
}

/// A11 — size ladder: a size parameter runs through EVERY value 0..=N (not only powers of two):
/// the length of each component (several fillers, with a distinguished character first / last),
/// the number of qualifiers, checksum entries, namespace and subpath segments, separators; with
/// the orders ascending / descending / zig-zag, a key or algorithm in another letter case, an
/// interleaved empty value, and a repeated key at the first / middle / last position.
pub fn ladder(tier: Tier) -> &'static [String] {
    static Q: std::sync::OnceLock<Vec<String>> = std::sync::OnceLock::new();
    static T: std::sync::OnceLock<Vec<String>> = std::sync::OnceLock::new();
    match tier {
        Tier::Quick => Q.get_or_init(|| ladder_gen(tier)),
        Tier::Thorough => T.get_or_init(|| ladder_gen(tier)),
    }
}

fn ladder_gen(tier: Tier) -> Vec<String> {
    let (nlen, ncount) = match tier {
        Tier::Quick => (300usize, 80usize),
        Tier::Thorough => (2100usize, 300usize),
    };
    let mut out: Vec<String> = Vec::new();
    // -- component lengths
    let frames: [(&str, &str); 14] = [
        ("pkg:", "/n"),
        ("pkg:t/", "/n"),
        ("pkg:t/", ""),
        ("pkg:pypi/", ""),
        ("pkg:nuget/", ""),
        ("pkg:npm/g/", "@1"),
        ("pkg:t/n@", ""),
        ("pkg:t/n?k=", ""),
        ("pkg:t/n?", "=v"),
        ("pkg:t/n?checksum=a:", ""),
        ("pkg:t/n?checksum=", ":00"),
        ("pkg:t/n#", ""),
        ("pkg:maven/", "/n"),
        ("pkg:t/n@1?k=v#a/", "/b"),
    ];
    let units: [&str; 9] = ["a", "A", "0", "é", "%C3%A9", "-", "a-", "Ab", "%41"];
    let edges: [&str; 6] = ["", "É", "-", ".", "%2F", "Z"];
    for (p, s) in frames.iter() {
        for u in units.iter() {
            for n in 0..=nlen {
                // the thorough ladder thins out above 300: every 7th length
                if n > 300 && n % 7 != 0 {
                    continue;
                }
                let body = u.repeat(n);
                for e in edges.iter() {
                    if e.is_empty() {
                        out.push(format!("{p}{body}{s}"));
                    } else if n % 2 == 1 || n < 40 {
                        out.push(format!("{p}{body}{e}{s}"));
                        out.push(format!("{p}{e}{body}{s}"));
                    }
                }
            }
        }
    }
    // -- "magic" sizes: one below, at and one above the lengths and counts that code tends to care about
    let magic: [usize; 12] = [255, 256, 512, 1000, 1024, 2048, 4096, 8192, 10000, 32768, 65535, 65536];
    for (p, s) in frames.iter() {
        // (unit, decoded bytes per unit); also behind one escaped ASCII letter, which shifts every
        // multi-byte character off the alignment of any power-of-two chunk
        for (u, w) in [("a", 1usize), ("é", 2), ("%41", 1), ("%C3%A9", 2), ("%E2%82%AC", 3)] {
            for m in magic.iter() {
                if tier == Tier::Quick && *m > 10000 {
                    continue;
                }
                for n in [m - 1, *m, m + 1] {
                    // n counts bytes of the decoded component
                    out.push(format!("{p}{}{s}", u.repeat(n / w)));
                    if w > 1 && n == *m {
                        out.push(format!("{p}%78{}{s}", u.repeat(n / w + 1)));
                    }
                }
            }
        }
    }
    for m in [999usize, 1000, 1001, 1023, 1024, 1025, 2000, 4096, 5000] {
        if tier == Tier::Quick && m > 2000 {
            continue;
        }
        for desc in [false, true] {
            let idx: Vec<usize> = if desc { (0..m).rev().collect() } else { (0..m).collect() };
            out.push(format!("pkg:t/n?{}", idx.iter().map(|i| format!("k{i:05}=v{i}")).collect::<Vec<_>>().join("&")));
            out.push(format!("pkg:t/n?checksum={}", idx.iter().map(|i| format!("h{i:05}:{:02x}", i % 256)).collect::<Vec<_>>().join(",")));
            // the last key repeated in the other case at the very end / the very start
            out.push(format!("pkg:t/n?{}&K{:05}=w", idx.iter().map(|i| format!("k{i:05}=v{i}")).collect::<Vec<_>>().join("&"), idx[0]));
            out.push(format!("pkg:t/n?checksum={},H{:05}:ff", idx.iter().map(|i| format!("h{i:05}:{:02x}", i % 256)).collect::<Vec<_>>().join(","), idx[m / 2]));
        }
        let segs: Vec<String> = (0..m).map(|i| format!("s{i}")).collect();
        out.push(format!("pkg:t/{}/n", segs.join("/")));
        out.push(format!("pkg:t/n#{}", segs.join("/")));
        out.push(format!("pkg:t/n#{}", segs.join("/../")));
    }
    // -- counts
    let key = |i: usize| format!("k{i:03}");
    let orders = |n: usize| -> Vec<Vec<usize>> {
        let asc: Vec<usize> = (0..n).collect();
        let desc: Vec<usize> = (0..n).rev().collect();
        let zig: Vec<usize> = (0..n).map(|i| if i % 2 == 0 { i / 2 } else { n - 1 - i / 2 }).collect();
        if n < 2 {
            vec![asc]
        } else {
            vec![asc, desc, zig]
        }
    };
    for n in 0..=ncount {
        for (oi, ord) in orders(n).iter().enumerate() {
            // variant 0: plain; 1: every third key upper-case; 2: an empty-valued qualifier in the middle;
            // 3..5: the first / middle / last key repeated in the other case at the end (must be refused);
            // 6: a checksum among them; 7: values that need escaping
            for variant in 0..8 {
                if variant >= 3 && variant <= 5 && n == 0 {
                    continue;
                }
                let mut items: Vec<String> = Vec::new();
                for (j, i) in ord.iter().enumerate() {
                    let mut k = key(*i);
                    if variant == 1 && j % 3 == 0 {
                        k = k.to_ascii_uppercase();
                    }
                    let v = if variant == 7 { format!("v%26{i}%20+") } else { format!("v{i}") };
                    items.push(format!("{k}={v}"));
                    if variant == 2 && j == n / 2 {
                        items.push("k0005=".to_owned());
                    }
                    if variant == 6 && j == n / 2 {
                        items.push("checksum=B:FF,a:00".to_owned());
                    }
                }
                match variant {
                    3 => items.push(format!("{}=w", key(ord[0]).to_ascii_uppercase())),
                    4 => items.push(format!("{}=w", key(ord[n / 2]).to_ascii_uppercase())),
                    5 => items.insert(0, format!("{}=w", key(ord[n - 1]).to_ascii_uppercase())),
                    _ => {},
                }
                let _ = oi;
                out.push(format!("pkg:t/n?{}", items.join("&")));
                if variant < 3 {
                    out.push(format!("pkg:npm/n@1?{}#s", items.join("&")));
                }
            }
            // checksum entries
            for variant in 0..5 {
                if variant >= 2 && n == 0 {
                    continue;
                }
                let alg = |i: usize| format!("h{i:03}");
                let mut items: Vec<String> = Vec::new();
                for (j, i) in ord.iter().enumerate() {
                    let mut a = alg(*i);
                    if variant == 1 && j % 2 == 0 {
                        a = a.to_ascii_uppercase();
                    }
                    items.push(format!("{a}:{:02X}aB", i % 256));
                }
                match variant {
                    2 => items.push(format!("{}:00", alg(ord[0]).to_ascii_uppercase())),
                    3 => items.push(format!("{}:00", alg(ord[n / 2]).to_ascii_uppercase())),
                    4 => items.insert(0, format!("{}:00", alg(ord[n - 1]).to_ascii_uppercase())),
                    _ => {},
                }
                out.push(format!("pkg:t/n?checksum={}", items.join(",")));
            }
        }
        // segments and separators
        let segs: Vec<String> = (0..n).map(|i| format!("s{i}")).collect();
        out.push(format!("pkg:t/{}/n", segs.join("/")));
        out.push(format!("pkg:t/{}//n", segs.join("//")));
        out.push(format!("pkg:maven/{}/n", segs.join("/")));
        out.push(format!("pkg:t/n#{}", segs.join("/")));
        out.push(format!("pkg:t/n#{}", segs.join("/./")));
        out.push(format!("pkg:t/n#/{}/../", segs.join("/../")));
        out.push(format!("pkg:golang/{}/n#{}", segs.join("/"), segs.join("/")));
        for sep in ["/", "@", "?", "#", "&", "=", ":", "%2F", "."] {
            out.push(format!("pkg:t/n{}x", sep.repeat(n)));
            out.push(format!("pkg:t/g/n@1?k=v{}#s", sep.repeat(n)));
            out.push(format!("pkg:{}t/n", sep.repeat(n)));
        }
    }
    out
}

/// A9 — the one-edit neighbourhood of the upstream conformance corpus: every deletion, every
/// insertion and every substitution of one token from a separator/escape alphabet at every position
/// of every corpus string (input and canonical form), plus adjacent transpositions. Deterministic
/// and exhaustive within "one edit"; replaces the "mutated from the conformance corpus" part of the
/// quantifiers.
pub fn corpus_edits() -> Vec<String> {
    const EDITS: [&str; 40] = [
        "/", "@", "?", "#", "&", "=", "%", ":", ".", "+", "-", "_", "~", "!", " ", "\"", "<", ">", "{", "}", "`", "\\", "é", "É", "ǅ", "A", "a", "0", "%2F", "%40", "%3F", "%23", "%26", "%3D", "%25", "%2e", "%41", "%C3", "%80",
        "\u{0}",
    ];
    let mut seeds: Vec<String> = Vec::new();
    for rec in crate::selftest::corpus_records() {
        for k in ["purl", "canonical_purl"] {
            if let Some(s) = rec[k].as_str() {
                if !seeds.iter().any(|x| x == s) {
                    seeds.push(s.to_owned());
                }
            }
        }
    }
    let mut seen = std::collections::HashSet::new();
    let mut out = Vec::new();
    let mut push = |s: String, out: &mut Vec<String>| {
        if seen.insert(crate::common::h64(&s)) {
            out.push(s);
        }
    };
    for s in &seeds {
        push(s.clone(), &mut out);
        let idx: Vec<usize> = s.char_indices().map(|(i, _)| i).chain(std::iter::once(s.len())).collect();
        for w in 0..idx.len() {
            let i = idx[w];
            for e in EDITS {
                // insertion at i
                push(format!("{}{}{}", &s[..i], e, &s[i..]), &mut out);
                // substitution of the character at i
                if w + 1 < idx.len() {
                    push(format!("{}{}{}", &s[..i], e, &s[idx[w + 1]..]), &mut out);
                }
            }
            if w + 1 < idx.len() {
                // deletion
                push(format!("{}{}", &s[..i], &s[idx[w + 1]..]), &mut out);
                // adjacent transposition
                if w + 2 < idx.len() {
                    push(format!("{}{}{}{}", &s[..i], &s[idx[w + 1]..idx[w + 2]], &s[i..idx[w + 1]], &s[idx[w + 2]..]), &mut out);
                }
            }
        }
    }
    out
}
