//! History independence — explicit exploration of operation SEQUENCES over independent objects.
//!
//! The library has no global state: the outcome of an operation on fresh arguments must not depend
//! on what the process (or the thread) did before. A memo table, a "last type seen" cache, a scratch
//! buffer hoisted to module or thread scope, a lazily built table — each of them looks fine in every
//! single-call test and in every per-input enumeration, and shows only when one particular call
//! precedes another. This explorer runs, for every operation y of an alphabet, y after EVERY
//! operation x (depth 2) and, for a sub-alphabet, y after every pair x1;x2 (depth 3), each job
//! sequentially in one thread, and requires all outcomes of y to be identical. A counter-example is
//! two histories followed by the same operation; the replay re-executes both.

use std::borrow::Cow;

use serde_json::{json, Value};

use crate::builders::*;
use crate::common::*;
use crate::lens;

#[derive(Clone, Debug, PartialEq)]
pub enum Op {
    /// parse with flavour 0 = String, 1 = SmallString, 2 = PackageType
    Parse(u8, String),
    Build(&'static str, BuildSpec),
    TypeFromStr(String),
    Combined(String, String),
    ChecksumText(String),
    QualsFromPairs(Vec<(String, String)>),
    /// format the value parsed from the string into a sink that accepts `budget` bytes (every chunk
    /// that does not fit is refused): an environment fault at every point of the output
    FormatLimited(String, usize),
    /// serde: deserialise the string as GenericPurl<String> (0) / Purl (2); serialise the parsed value
    Deserialize(u8, String),
    Serialize(u8, String),
    /// a typed checksum assembled from raw entries, handed to the builder
    ChecksumEntries(Vec<(String, String)>),
}

impl Op {
    pub fn to_json(&self) -> Value {
        match self {
            Op::Parse(f, s) => json!({"parse": s, "flavor": f}),
            Op::Build(f, spec) => json!({"build": spec.to_json(), "flavor": f}),
            Op::TypeFromStr(s) => json!({"package_type_from_str": s}),
            Op::Combined(t, s) => json!({"combined": s, "ty": t}),
            Op::ChecksumText(s) => json!({"checksum": s}),
            Op::QualsFromPairs(p) => json!({"try_from_iter": p}),
            Op::FormatLimited(s, b) => json!({"format_limited": s, "budget": b}),
            Op::Deserialize(f, s) => json!({"deserialize": s, "flavor": f}),
            Op::Serialize(f, s) => json!({"serialize": s, "flavor": f}),
            Op::ChecksumEntries(e) => json!({"checksum_entries": e}),
        }
    }
    pub fn from_json(v: &Value) -> Option<Op> {
        if let Some(s) = v["parse"].as_str() {
            return Some(Op::Parse(v["flavor"].as_u64()? as u8, s.to_owned()));
        }
        if !v["build"].is_null() {
            let f = BUILD_FLAVORS.iter().find(|x| Some(**x) == v["flavor"].as_str())?;
            return Some(Op::Build(f, BuildSpec::from_json(&v["build"])?));
        }
        if let Some(s) = v["package_type_from_str"].as_str() {
            return Some(Op::TypeFromStr(s.to_owned()));
        }
        if let Some(s) = v["combined"].as_str() {
            return Some(Op::Combined(v["ty"].as_str()?.to_owned(), s.to_owned()));
        }
        if let Some(s) = v["checksum"].as_str() {
            return Some(Op::ChecksumText(s.to_owned()));
        }
        if let Some(s) = v["format_limited"].as_str() {
            return Some(Op::FormatLimited(s.to_owned(), v["budget"].as_u64()? as usize));
        }
        if let Some(s) = v["deserialize"].as_str() {
            return Some(Op::Deserialize(v["flavor"].as_u64()? as u8, s.to_owned()));
        }
        if let Some(s) = v["serialize"].as_str() {
            return Some(Op::Serialize(v["flavor"].as_u64()? as u8, s.to_owned()));
        }
        if let Some(e) = v["checksum_entries"].as_array() {
            return Some(Op::ChecksumEntries(e.iter().filter_map(|p| Some((p[0].as_str()?.to_owned(), p[1].as_str()?.to_owned()))).collect()));
        }
        let pairs = v["try_from_iter"].as_array()?;
        Some(Op::QualsFromPairs(pairs.iter().filter_map(|p| Some((p[0].as_str()?.to_owned(), p[1].as_str()?.to_owned()))).collect()))
    }
    /// which property the outcome of this operation belongs to
    pub fn prop(&self) -> &'static str {
        match self {
            Op::Parse(..) => "C02",
            Op::Build(..) => "C09",
            Op::TypeFromStr(_) => "C15",
            Op::Combined(..) => "C18",
            Op::ChecksumText(_) | Op::ChecksumEntries(_) => "C12",
            Op::QualsFromPairs(_) => "C11",
            Op::FormatLimited(..) => "C03",
            Op::Deserialize(..) | Op::Serialize(..) => "C16",
        }
    }
}

fn outcome_line<T: Flavor>(r: Result<purl::GenericPurl<T>, T::Error>) -> String {
    match r {
        Err(e) => format!("ERR {}", T::err_text(&e)),
        Ok(p) => {
            let o = observe(&p);
            let again = p.clone().into_builder().build().map(|q| q == p).unwrap_or(false);
            format!("OK {}|{:?}|{}|{:?}|{:?}|{:?}|{}|rebuild-equal={}", o.ty, o.ns, o.name, o.version, o.quals, o.subpath, p.to_string(), again)
        },
    }
}

struct Line(String);
impl WithPurl for Line {
    fn ok<T: Flavor>(&mut self, _f: &'static str, p: &purl::GenericPurl<T>, _acc: &mut Acc) {
        let o = observe(p);
        let text = p.to_string();
        // "the string form of that PURL is accepted by the parser and yields those same field values"
        let back = <String as PFlavor>::parse(&text).map(|q| format!("{:?}", observe(&q))).unwrap_or_else(|e| format!("refused: {e}"));
        self.0 = format!("OK {}|{:?}|{}|{:?}|{:?}|{:?}|{}|parsed back: {}", o.ty, o.ns, o.name, o.version, o.quals, o.subpath, text, back);
    }
    fn refused(&mut self, _f: &'static str, class: Option<ErrClass>, text: &str, _acc: &mut Acc) {
        self.0 = format!("ERR {:?} {}", class.map(|c| c.name()), text);
    }
}

/// Execute one operation on fresh arguments; the outcome as text (a panic is an outcome too).
pub fn run_op(op: &Op, acc: &mut Acc) -> String {
    acc.calls += 1;
    let r = guarded(|| match op {
        Op::Parse(0, s) => outcome_line::<String>(<String as PFlavor>::parse(s)),
        #[cfg(feature = "smart")]
        Op::Parse(1, s) => outcome_line::<purl::SmallString>(<purl::SmallString as PFlavor>::parse(s)),
        #[cfg(feature = "typed")]
        Op::Parse(2, s) => outcome_line::<purl::PackageType>(<purl::PackageType as PFlavor>::parse(s)),
        Op::Parse(_, _) => "flavour not in this build".to_owned(),
        Op::Build(f, spec) => {
            let mut l = Line(String::new());
            let mut a = Acc::new();
            build_flavor(f, spec, &mut a, &mut l);
            l.0
        },
        #[cfg(feature = "typed")]
        Op::TypeFromStr(s) => {
            use std::str::FromStr;
            format!("{:?}", purl::PackageType::from_str(s).map(|t| t.name()).map_err(|e| e.to_string()))
        },
        #[cfg(feature = "typed")]
        Op::Combined(t, s) => match <purl::PackageType as Flavor>::mk(t) {
            None => "no such type".to_owned(),
            Some(pt) => {
                let b = purl::Purl::builder_with_combined_name(pt, s.as_str());
                let parts = format!("{:?}|{:?}", b.parts.namespace, b.parts.name);
                match b.build() {
                    Ok(p) => format!("{parts} -> {} ; combined_name = {:?}", p, p.combined_name()),
                    Err(e) => format!("{parts} -> ERR {e}"),
                }
            },
        },
        #[cfg(not(feature = "typed"))]
        Op::TypeFromStr(_) | Op::Combined(..) => "typed API not in this build".to_owned(),
        Op::ChecksumText(s) => match purl::qualifiers::well_known::Checksum::try_from(s.as_str()) {
            Err(e) => format!("ERR {e}"),
            Ok(c) => {
                let mut entries: Vec<(String, String)> = c.iter().map(|(a, v)| (a.to_owned(), v.raw().to_owned())).collect();
                entries.sort();
                let text = purl::GenericPurlBuilder::new("t".to_owned(), "n").try_with_typed_qualifier(Some(c)).map(|b| b.parts.qualifiers.get("checksum").map(str::to_owned)).map_err(|e| e.to_string());
                format!("OK {:?} text={:?}", entries, text)
            },
        },
        Op::FormatLimited(s, budget) => match <String as PFlavor>::parse(s) {
            Err(e) => format!("ERR {e}"),
            Ok(p) => {
                use std::fmt::Write as _;
                struct Limited {
                    buf: String,
                    left: usize,
                }
                impl std::fmt::Write for Limited {
                    fn write_str(&mut self, s: &str) -> std::fmt::Result {
                        if s.len() > self.left {
                            return Err(std::fmt::Error);
                        }
                        self.left -= s.len();
                        self.buf.push_str(s);
                        Ok(())
                    }
                }
                let mut sink = Limited { buf: String::new(), left: *budget };
                let r = write!(sink, "{}", p);
                format!("{:?} {:?}", r.is_ok(), sink.buf)
            },
        },
        #[cfg(feature = "serde")]
        Op::Deserialize(f, s) => {
            let json = serde_json::to_string(s).unwrap_or_default();
            match f {
                0 => match serde_json::from_str::<purl::GenericPurl<String>>(&json) {
                    Ok(p) => outcome_line::<String>(Ok(p)),
                    Err(e) => format!("ERR {e}"),
                },
                #[cfg(feature = "typed")]
                2 => match serde_json::from_str::<purl::Purl>(&json) {
                    Ok(p) => outcome_line::<purl::PackageType>(Ok(p)),
                    Err(e) => format!("ERR {e}"),
                },
                _ => "flavour not in this build".to_owned(),
            }
        },
        #[cfg(feature = "serde")]
        Op::Serialize(f, s) => match f {
            0 => format!("{:?}", <String as PFlavor>::parse(s).map(|p| serde_json::to_string(&p).map_err(|e| e.to_string())).map_err(|e| e.to_string())),
            #[cfg(feature = "typed")]
            2 => format!("{:?}", <purl::PackageType as PFlavor>::parse(s).map(|p| serde_json::to_string(&p).map_err(|e| e.to_string())).map_err(|e| e.to_string())),
            _ => "flavour not in this build".to_owned(),
        },
        #[cfg(not(feature = "serde"))]
        Op::Deserialize(..) | Op::Serialize(..) => "serde not in this build".to_owned(),
        Op::ChecksumEntries(entries) => {
            let mut c = purl::qualifiers::well_known::Checksum::default();
            for (a, h) in entries {
                c.insert_raw(a, h.clone());
            }
            match purl::GenericPurlBuilder::new("t".to_owned(), "n").try_with_typed_qualifier(Some(c)) {
                Ok(b) => format!("OK {:?}", b.parts.qualifiers.get("checksum")),
                Err(e) => format!("ERR {e}"),
            }
        },
        Op::QualsFromPairs(pairs) => match purl::Qualifiers::try_from_iter(pairs.iter().map(|(k, v)| (k.as_str(), v.as_str()))) {
            Err(e) => format!("ERR {e}"),
            Ok(q) => format!("OK {:?} get(K)={:?}", q.iter().map(|(k, v)| (k.as_str().to_owned(), v.to_owned())).collect::<Vec<_>>(), q.get("K")),
        },
    });
    match r {
        Ok(s) => s,
        Err(m) => format!("PANIC {m}"),
    }
}

/// The alphabet of operations, simplest first.
pub fn alphabet(tier: Tier) -> Vec<Op> {
    let mut ops: Vec<Op> = Vec::new();
    let mut push = |o: Op, ops: &mut Vec<Op>| {
        if !ops.contains(&o) {
            ops.push(o);
        }
    };
    // parser, type-agnostic: every node of the macro-separator lens up to 2 tokens
    let depth = if tier == Tier::Quick { 2 } else { 2 };
    let l = lens::lens("A1b");
    let mut stack: Vec<(String, usize)> = vec![("pkg:t/".to_owned(), 0)];
    let mut nodes = Vec::new();
    while let Some((s, d)) = stack.pop() {
        if d < depth {
            for t in l.alphabet.iter().rev() {
                stack.push((format!("{s}{t}"), d + 1));
            }
        }
        nodes.push(s);
    }
    for s in nodes {
        push(Op::Parse(0, s), &mut ops);
    }
    for s in ["pkg:T/n", "pkg:T.x/N@1", "pkg:abcdefghijklmnopqrstuvwxyz/n", "pkg:t/n?checksum=B:FF,a:0A", "pkg:t/n?checksum=a:0a,b:ff", "pkg:t/n?CheckSum=É:00", "pkg:t/n?k=v&K2=w", "pkg:t/%C3%A9@%C3%A9#%C3%A9", "pkg:t/a-name-that-is-longer-than-the-inline-buffer@1", "PKG:t/n", "pkg:/t/n", "pkg:t/n?k=a%26b"] {
        push(Op::Parse(0, s.to_owned()), &mut ops);
        push(Op::Parse(1, s.to_owned()), &mut ops);
    }
    // parser, typed: every known type in several spellings x several names
    for ty in ["cargo", "gem", "golang", "maven", "npm", "nuget", "pypi", "NPM", "PyPI", "NuGet", "Maven", "generic", "npmx", "np"] {
        for rest in ["a", "a-b", "A_b.C", "g/a", "g/h/a@1", "%40s/a", "a?k=v#s", "\u{212A}-x", "a:b"] {
            push(Op::Parse(2, format!("pkg:{ty}/{rest}")), &mut ops);
        }
    }
    // builder, every flavour
    for ty in ["t", "T", "npm", "NPM", "pypi", "PyPI", "maven", "nuget", "NuGet", "x.y", "", "!"] {
        for (ns, name, version) in [("", "a", ""), ("g", "A_b.C", "1"), ("", "é", ""), ("g/h", "a-name-that-is-longer-than-the-inline-buffer", "")] {
            let spec = BuildSpec { ty: ty.to_owned(), ns: ns.to_owned(), name: name.to_owned(), version: version.to_owned(), quals: if version.is_empty() { vec![] } else { vec![("K".into(), "v".into()), ("checksum".into(), "B:FF,a:0A".into())] }, subpath: String::new() };
            for f in BUILD_FLAVORS {
                push(Op::Build(f, spec.clone()), &mut ops);
            }
        }
    }
    for s in ["cargo", "gem", "golang", "maven", "npm", "nuget", "pypi", "CARGO", "Gem", "GoLang", "MAVEN", "Npm", "NuGet", "PyPI", "", "np", "npmm", "pip", "generic", "\u{212A}", "nu\u{212A}et", "pypı"] {
        push(Op::TypeFromStr(s.to_owned()), &mut ops);
    }
    // neighbours of every name: padded, truncated, extended - right after the name itself is a hit
    for name in ["cargo", "gem", "golang", "maven", "npm", "nuget", "pypi"] {
        for v in [format!("{name} "), format!(" {name}"), format!("{name}\0"), format!("{name}\t"), format!("{}\0 ", name.to_ascii_uppercase()), format!("{name}s"), name[..name.len() - 1].to_owned(), format!("{name}{name}"), format!("{name}\u{301}")] {
            push(Op::TypeFromStr(v), &mut ops);
        }
    }
    // names that a coarser notion of equality (case FOLDING, normalisation, numeric value) identifies
    // although their lower-case forms differ - for the types with a name rule, builder and parser
    {
        let mut fold: Vec<String> = crate::pools::NEAR.iter().map(|s| s.to_string()).collect();
        for v in ["STRASSE", "Strasse.Tools", "straße.tools", "straße", "MASSE", "Maße", "ΟΔΟΣ", "οδος", "οδοσ", "ΟΔΟΣ_Lib", "οδος_lib", "ſ", "s", "S", "µ", "μ", "Μ", "ϐ", "β", "ẞ", "ﬀ", "ff", "İ", "i̇", "ı", "I"] {
            fold.push(v.to_owned());
        }
        for v in fold {
            if v.is_empty() {
                continue;
            }
            for ty in ["nuget", "pypi"] {
                let spec = BuildSpec { ty: ty.to_owned(), name: v.clone(), ..Default::default() };
                push(Op::Build("PackageType", spec), &mut ops);
            }
            let enc: String = v.bytes().map(|b| format!("%{b:02X}")).collect();
            push(Op::Parse(2, format!("pkg:nuget/{enc}")), &mut ops);
        }
    }
    for ty in ["cargo", "gem", "golang", "maven", "npm", "nuget", "pypi"] {
        for s in ["a", "a/b", "a:b", "@s/n", "g/h/n:m"] {
            push(Op::Combined(ty.to_owned(), s.to_owned()), &mut ops);
        }
    }
    for s in ["a:00", "B:FF,a:0A", "a:0a,b:ff", "a:00,A:11", "a:0", "zz", "", "É:00,é:11", "sha256:00ff,md5:aa", "a:00,"] {
        push(Op::ChecksumText(s.to_owned()), &mut ops);
    }
    // every kind of REFUSED call as a predecessor (and as a judged operation): all single faults of
    // the fault menu on two rich tuples - a failing step must leave nothing behind
    {
        use crate::spell::{fault_menu, respell, FaultSel, SpecTuple};
        let sv = |v: &[&str]| v.iter().map(|s| s.to_string()).collect::<Vec<String>>();
        let tuples = [
            SpecTuple { ty: "t".into(), typed: false, ns: sv(&["A b", "é"]), name: "n".into(), version: Some("1.0+b@2".into()), quals: vec![("checksum".into(), "a:00,b:ff0a".into()), ("k".into(), "x?y".into())], subpath: sv(&["a b", "é#"]) },
            SpecTuple { ty: "npm".into(), typed: true, ns: sv(&["@s", ".."]), name: "N-_.m".into(), version: Some("v/1".into()), quals: vec![("checksum".into(), "md:00,md5:11".into()), ("k_".into(), "v".into()), ("kz".into(), "w".into())], subpath: sv(&["s", "t"]) },
        ];
        for t in &tuples {
            let (canon, _) = respell(t, &[], None);
            push(Op::Parse(if t.typed { 2 } else { 0 }, canon.clone()), &mut ops);
            let menu = fault_menu(t);
            for (site, n) in menu.iter().enumerate() {
                for alt in 1..=*n {
                    let (text, info) = respell(t, &[], Some(FaultSel { site, alt }));
                    if info.is_some() {
                        push(Op::Parse(if t.typed { 2 } else { 0 }, text.clone()), &mut ops);
                        if tier == Tier::Thorough || (site + alt) % 4 == 0 {
                            push(Op::Parse(if t.typed { 0 } else { 2 }, text), &mut ops);
                        }
                    }
                }
            }
        }
    }
    // formatting into a sink that fails after every possible number of bytes
    for s in ["pkg:t/g/n@1?a=1&k=v#s", "pkg:t/n?checksum=a:00&z=%20"] {
        let full = <String as PFlavor>::parse(s).map(|p| p.to_string().len()).unwrap_or(0);
        for b in 0..=full {
            push(Op::FormatLimited(s.to_owned(), b), &mut ops);
        }
    }
    for s in ["pkg:pypi/Foo_Bar@1.0", "pkg:nuget/Newtonsoft.Json", "pkg:maven/junit@4.13", "pkg:NPM/a", "pkg:t/n", "pkg:T/n?K=v", "pkg:t", "pkg:golang/g/n#s"] {
        for f in [0u8, 2] {
            push(Op::Deserialize(f, s.to_owned()), &mut ops);
            push(Op::Serialize(f, s.to_owned()), &mut ops);
        }
    }
    for e in [vec![], vec![("a", "00")], vec![("sha1", "00"), ("sha256", "zz")], vec![("md5", "AABB")], vec![("b", "0")], vec![("A", "ff"), ("a", "00")], vec![("crc32", "FF"), ("SHA256", "0102EF")]] {
        push(Op::ChecksumEntries(e.iter().map(|(a, h)| (a.to_string(), h.to_string())).collect()), &mut ops);
    }
    for pairs in [vec![], vec![("k", "v")], vec![("K", "v")], vec![("b", "2"), ("A", "1")], vec![("a", "1"), ("A", "2")], vec![("!", "v")], vec![("k_", "1"), ("kz", "2"), ("K", "3")]] {
        push(Op::QualsFromPairs(pairs.iter().map(|(k, v)| (k.to_string(), v.to_string())).collect()), &mut ops);
    }
    ops
}

/// Operations that displace whatever single-entry memory an implementation might keep (one of each
/// kind, with values that occur nowhere else in the alphabet).
pub fn flush_ops() -> Vec<Op> {
    vec![
        Op::Parse(0, "pkg:zz-f/zf/zn@9?zq=zv#zs".to_owned()),
        Op::Parse(2, "pkg:pypi/zz-flush".to_owned()),
        Op::Parse(2, "pkg:nuget/zg/zz.flush".to_owned()),
        Op::ChecksumText("zf:00".to_owned()),
        Op::TypeFromStr("zz-none".to_owned()),
    ]
}

fn solo(op: &Op) -> String {
    let op = op.clone();
    std::thread::spawn(move || run_op(&op, &mut Acc::new())).join().unwrap_or_else(|_| "THREAD PANIC".to_owned())
}

fn is_judged(prop: &str, op: &Op) -> bool {
    match prop {
        // the package-type rules, from the parser and from the builder
        "C08" => matches!(op, Op::Parse(2, _) | Op::Build("PackageType", _)),
        _ => op.prop() == prop,
    }
}

/// `prop`: property whose operations are judged (the operations of the other kinds still take part
/// as predecessors). Every outcome is compared with the outcome of the same operation executed
/// alone in a fresh thread. Per judged operation y one job (a thread of its own):
///   for every x:  F ; x ; y      (F = the flush operations)
/// and both x (if judged) and y are compared with their solo outcomes — so every judged operation is
/// seen directly after every operation, in both orders, once with displaced and once with
/// accumulated hidden state.
pub fn explore(prop: &'static str, tier: Tier) -> (Acc, Value) {
    let ops = alphabet(tier);
    let n = ops.len();
    let judged: Vec<usize> = (0..n).filter(|i| is_judged(prop, &ops[*i])).collect();
    let flush = flush_ops();
    let base: Vec<String> = {
        let out = std::sync::Mutex::new(vec![String::new(); n]);
        par_items(n, threads(), |i, _| {
            let o = solo(&ops[i]);
            out.lock().unwrap()[i] = o;
        });
        out.into_inner().unwrap()
    };
    let tier_name = if tier == Tier::Quick { "quick" } else { "thorough" };
    let mut acc = par_items(judged.len(), threads(), |ji, acc| std::thread::scope(|sc| { sc.spawn(|| {
        let yi = judged[ji];
        let y = &ops[yi];
        for (xi, x) in ops.iter().enumerate() {
            for f in &flush {
                let _ = run_op(f, acc);
            }
            let ox = run_op(x, acc);
            if ox != base[xi] && is_judged(prop, x) {
                let mut h: Vec<Value> = flush.iter().map(Op::to_json).collect();
                h.insert(0, y.to_json());
                acc.violate(Violation {
                    prop,
                    kind: "outcome-depends-on-history".into(),
                    case: json!({"engine": "history", "history": h, "op": x.to_json(), "prefix": {"tier": tier_name, "job": yi, "upto": xi, "which": "x"}}),
                    detail: format!("alone: {}; after the history: {ox}", base[xi]),
                });
            }
            let o = run_op(y, acc);
            acc.evals += 1;
            acc.nontrivial += 1;
            acc.sig(&(o.starts_with("OK"), o.len().min(40)));
            if o != base[yi] {
                let mut h: Vec<Value> = flush.iter().map(Op::to_json).collect();
                h.push(x.to_json());
                acc.violate(Violation {
                    prop,
                    kind: "outcome-depends-on-history".into(),
                    case: json!({"engine": "history", "history": h, "op": y.to_json(), "prefix": {"tier": tier_name, "job": yi, "upto": xi, "which": "y"}}),
                    detail: format!("alone: {}; after the history: {o}", base[yi]),
                });
            }
        }
    }).join().expect("history job"); }));
    let pairs = acc.evals;
    // depth 3 over a sub-alphabet (every k-th operation), no flushing: x1 ; x2 ; y
    let (step, ystep) = if tier == Tier::Quick { (41, 7) } else { (13, 3) };
    let sub: Vec<usize> = (0..n).filter(|i| i % step == 0).collect();
    let judged3: Vec<usize> = judged.iter().copied().enumerate().filter(|(k, _)| k % ystep == 0).map(|(_, i)| i).collect();
    let a3 = par_items(judged3.len(), threads(), |ji, acc| std::thread::scope(|sc| { sc.spawn(|| {
        let yi = judged3[ji];
        let y = &ops[yi];
        for x1 in &sub {
            for x2 in &sub {
                let _ = run_op(&ops[*x1], acc);
                let _ = run_op(&ops[*x2], acc);
                let o = run_op(y, acc);
                acc.evals += 1;
                acc.nontrivial += 1;
                if o != base[yi] {
                    acc.violate(Violation {
                        prop,
                        kind: "outcome-depends-on-history".into(),
                        case: json!({"engine": "history", "history": [ops[*x1].to_json(), ops[*x2].to_json()], "op": y.to_json()}),
                        detail: format!("alone: {}; after the history: {o}", base[yi]),
                    });
                }
            }
        }
    }).join().expect("history job"); }));
    let triples = a3.evals;
    acc.merge(a3);
    let rep = json!({"engine": "H-history-independence", "operations": n, "judged_operations": judged.len(), "flush_operations": flush.len(), "depth2_sequences": pairs, "depth3_sub_alphabet": sub.len(), "depth3_judged_operations": judged3.len(), "depth3_sequences": triples,
                     "oracle": "the outcome of an operation on fresh arguments is the same alone (fresh thread) and after every history"});
    (acc, rep)
}

// ------------------------------------------------------------------------------------------------
// second shape: a VALUE held across unrelated calls

fn hold_obs<T: PFlavor>(p: &purl::GenericPurl<T>) -> (String, bool, bool) {
    let text = guarded(|| p.to_string()).unwrap_or_else(|m| format!("PANIC {m}"));
    let rebuild = guarded(|| p.clone().into_builder().build().map(|q| &q == p && q.to_string() == text).unwrap_or(false)).unwrap_or(false);
    let reparse = guarded(|| T::parse(&text).map(|q| &q == p && q.to_string() == text).unwrap_or(false)).unwrap_or(false);
    (format!("{text} {:?}", observe(p)), rebuild, reparse)
}

fn hold_one<T: PFlavor>(prop: &'static str, make: &dyn Fn() -> Option<purl::GenericPurl<T>>, y: &Op, xs: &[Op], flush: &[Op], acc: &mut Acc) -> bool {
    let mut any = false;
    for x in xs {
        // the value is obtained anew for every x; then displaced memories, then x, then the examination
        let Some(p) = make() else { return any };
        any = true;
        let base = hold_obs(&p);
        for f in flush {
            let _ = run_op(f, acc);
        }
        let _ = run_op(x, acc);
        let now = hold_obs(&p);
        acc.evals += 1;
        acc.nontrivial += 1;
        let differs = match prop {
            "C01" => now.2 != base.2 || !now.2,
            "C10" => now.1 != base.1 || !now.1,
            _ => now.0 != base.0,
        };
        acc.sig(&(now.1, now.2, now.0.len().min(30)));
        if differs {
            let mut h: Vec<Value> = flush.iter().map(Op::to_json).collect();
            h.push(x.to_json());
            acc.violate(Violation {
                prop,
                kind: "held-value-depends-on-history".into(),
                case: json!({"engine": "history-hold", "op": y.to_json(), "held_across": h}),
                detail: format!("a value obtained before unrelated calls and examined after them: (string and accessors, re-build equal, re-parse equal) was {:?}, is {:?}", base, now),
            });
        }
    }
    any
}

fn hold_dispatch(prop: &'static str, y: &Op, xs: &[Op], flush: &[Op], acc: &mut Acc) -> bool {
    match y {
        Op::Parse(0, s) => hold_one::<String>(prop, &|| guarded(|| <String as PFlavor>::parse(s)).ok().and_then(Result::ok), y, xs, flush, acc),
        #[cfg(feature = "smart")]
        Op::Parse(1, s) => hold_one::<purl::SmallString>(prop, &|| guarded(|| <purl::SmallString as PFlavor>::parse(s)).ok().and_then(Result::ok), y, xs, flush, acc),
        #[cfg(feature = "typed")]
        Op::Parse(2, s) => hold_one::<purl::PackageType>(prop, &|| guarded(|| <purl::PackageType as PFlavor>::parse(s)).ok().and_then(Result::ok), y, xs, flush, acc),
        Op::Build("String", spec) => hold_one::<String>(
            prop,
            &|| match guarded(|| build_with(spec.ty.clone(), spec, &mut Acc::new())) {
                Ok(Built::Ok(p)) => Some(p),
                _ => None,
            },
            y,
            xs,
            flush,
            acc,
        ),
        #[cfg(feature = "typed")]
        Op::Build("PackageType", spec) => hold_one::<purl::PackageType>(
            prop,
            &|| {
                let pt = <purl::PackageType as Flavor>::mk(&spec.ty)?;
                match guarded(|| build_with(pt, spec, &mut Acc::new())) {
                    Ok(Built::Ok(p)) => Some(p),
                    _ => None,
                }
            },
            y,
            xs,
            flush,
            acc,
        ),
        _ => false,
    }
}

/// Every value the alphabet produces, held across every operation of the alphabet.
pub fn explore_hold(prop: &'static str, tier: Tier) -> (Acc, Value) {
    let ops = alphabet(tier);
    let n = ops.len();
    let flush = flush_ops();
    let acc = par_items(n, threads(), |yi, acc| {
        std::thread::scope(|sc| {
            sc.spawn(|| {
                // without and with displaced memories
                hold_dispatch(prop, &ops[yi], &ops, &[], acc);
                hold_dispatch(prop, &ops[yi], &ops, &flush, acc);
            })
            .join()
            .expect("history job");
        })
    });
    let rep = json!({"engine": "H-history-independence", "shape": "a value held across every operation", "operations": n, "held_value_examinations": acc.evals,
                     "oracle": "string form, accessors, re-build and re-parse of a value are the same before and after any unrelated call"});
    (acc, rep)
}

pub fn replay_hold(prop: &'static str, case: &Value) -> Option<Vec<Violation>> {
    let y = Op::from_json(&case["op"])?;
    let xs: Vec<Op> = case["held_across"].as_array()?.iter().filter_map(Op::from_json).collect();
    std::thread::spawn(move || {
        let mut acc = Acc::new();
        hold_dispatch(prop, &y, &xs[xs.len().saturating_sub(1)..], &xs[..xs.len().saturating_sub(1)], &mut acc);
        acc.violations
    })
    .join()
    .ok()
}

pub fn replay(prop: &'static str, case: &Value) -> Option<Vec<Violation>> {
    let y = Op::from_json(&case["op"])?;
    let mut acc = Acc::new();
    let alone = solo(&y);
    let xs: Vec<Op> = case["history"].as_array()?.iter().filter_map(Op::from_json).collect();
    let after = {
        let y = y.clone();
        std::thread::spawn(move || {
            let mut a = Acc::new();
            for x in &xs {
                let _ = run_op(x, &mut a);
            }
            run_op(&y, &mut a)
        })
        .join()
        .ok()?
    };
    if alone != after {
        acc.violate(Violation { prop, kind: "outcome-depends-on-history".into(), case: case.clone(), detail: format!("alone: {alone}; after the history: {after}") });
    } else if let (Some(job), Some(upto)) = (case["prefix"]["job"].as_u64(), case["prefix"]["upto"].as_u64()) {
        // the whole prefix of the exploration job (hidden state accumulated over many operations)
        let tier = if case["prefix"]["tier"] == json!("thorough") { Tier::Thorough } else { Tier::Quick };
        let which_x = case["prefix"]["which"] == json!("x");
        let last = std::thread::spawn(move || {
            let ops = alphabet(tier);
            let flush = flush_ops();
            let mut a = Acc::new();
            let yj = &ops[job as usize];
            let mut last = String::new();
            for (xi, x) in ops.iter().enumerate().take(upto as usize + 1) {
                for f in &flush {
                    let _ = run_op(f, &mut a);
                }
                let ox = run_op(x, &mut a);
                if which_x && xi == upto as usize {
                    return ox;
                }
                last = run_op(yj, &mut a);
            }
            last
        })
        .join()
        .ok()?;
        if last != alone {
            acc.violate(Violation { prop, kind: "outcome-depends-on-history".into(), case: case.clone(), detail: format!("alone: {alone}; after the prefix of the exploration job ({} steps): {last}", upto + 1) });
        }
    }
    Some(acc.violations)
}

// ------------------------------------------------------------------------------------------------
// Display into a sink that fails: an environment fault at every point of the output

/// Every value of a small pool formatted into a sink that accepts b bytes, for EVERY b from 0 to the
/// length of the output. Display must return (C06: no panic - an `unwrap` on a write is one), must
/// report an error exactly when something did not fit, and whatever it wrote must be a prefix of the
/// canonical string (C03).
pub fn limited_sink_sweep(prop: &'static str) -> (Acc, Value) {
    use std::fmt::Write as _;
    struct Limited {
        buf: String,
        left: usize,
    }
    impl std::fmt::Write for Limited {
        fn write_str(&mut self, s: &str) -> std::fmt::Result {
            if s.len() > self.left {
                return Err(std::fmt::Error);
            }
            self.left -= s.len();
            self.buf.push_str(s);
            Ok(())
        }
    }
    let mut inputs: Vec<String> = vec![
        "pkg:t/n".into(),
        "pkg:t/g/h/n@1.0?a=1&b=2&checksum=a:00,b:ff&k=x%20y#s/t".into(),
        "pkg:npm/%40s/n@1?a=1&z=2".into(),
        "pkg:maven/g/n?classifier=c&type=jar&repository_url=u".into(),
        "pkg:t/%C3%A9@%C3%A9?k=%C3%A9&l=%26#%C3%A9".into(),
    ];
    let l = lens::lens("A1b");
    for a in l.alphabet.iter() {
        for b in l.alphabet.iter() {
            inputs.push(format!("pkg:t/{a}{b}"));
        }
    }
    let acc = par_items(inputs.len(), threads(), |i, acc| {
        let s = &inputs[i];
        let Ok(Ok(p)) = guarded(|| <String as PFlavor>::parse(s)) else { return };
        let Ok(full) = guarded(|| p.to_string()) else { return };
        for budget in 0..=full.len() + 1 {
            acc.evals += 1;
            acc.calls += 1;
            let case = json!({"engine": "limited-sink", "input": s, "budget": budget});
            let mut sink = Limited { buf: String::new(), left: budget };
            match guarded(|| write!(sink, "{}", p)) {
                Err(m) => acc.violate(Violation { prop: "C06", kind: "panic".into(), case, detail: format!("Display panics when the writer refuses a chunk after {} bytes: {m}", sink.buf.len()) }),
                Ok(r) => {
                    acc.sig(&(r.is_ok(), budget.min(3)));
                    if prop == "C03" {
                        if !full.starts_with(sink.buf.as_str()) {
                            acc.violate(Violation { prop: "C03", kind: "partial-output-not-a-prefix".into(), case: case.clone(), detail: format!("wrote {:?}, the canonical string is {:?}", sink.buf, full) });
                        }
                        if r.is_ok() != (sink.buf == full) || (budget >= full.len() && r.is_err()) {
                            acc.violate(Violation { prop: "C03", kind: "sink-result".into(), case, detail: format!("budget {budget}, result ok = {}, wrote {:?} of {:?}", r.is_ok(), sink.buf, full) });
                        }
                    }
                },
            }
            acc.nontrivial += 1;
        }
    });
    let rep = json!({"engine": "H-limited-sinks", "values": inputs.len(), "formatting_attempts": acc.evals, "oracle": "no panic; error iff something did not fit; what was written is a prefix of the canonical string"});
    (acc, rep)
}

// ------------------------------------------------------------------------------------------------
// a violation that does not reproduce from its case alone

/// Re-execute `inner` (any replayable case) after the operations of `history`, all in one fresh thread.
fn after(history: &[Op], inner: &Value, replayer: &(dyn Fn(&Value) -> Option<Vec<Violation>> + Sync)) -> Option<Vec<Violation>> {
    std::thread::scope(|sc| {
        sc.spawn(|| {
            let mut a = Acc::new();
            for x in history {
                let _ = run_op(x, &mut a);
            }
            guarded(|| replayer(inner)).ok().flatten()
        })
        .join()
        .ok()
        .flatten()
    })
}

/// Search the operation alphabet (and pairs over its failing operations) for a history after which
/// the case shows its violation twice in a row; the extended case is replayable on its own.
pub fn context_search(prop: &'static str, case: &Value, replayer: &(dyn Fn(&Value) -> Option<Vec<Violation>> + Sync)) -> Option<Value> {
    // only for cases whose replay is cheap (one string, one build, one sweep case); the search has a
    // time budget, and a case it cannot extend stays what it was: not reproducible
    const CHEAP: [&str; 12] = ["string", "build", "spell", "c13-flavors", "flavor-monitors", "c10-flavors", "c08-name", "c08-maven-ns", "c08-maven-no-ns", "c15", "c18-forward", "pool-pair"];
    if !CHEAP.contains(&case["engine"].as_str().unwrap_or("")) {
        return None;
    }
    let started = std::time::Instant::now();
    let ops = alphabet(Tier::Quick);
    let shows = |h: &[Op]| after(h, case, replayer).map(|vs| vs.iter().any(|v| v.prop == prop)).unwrap_or(false);
    let found = std::sync::Mutex::new(None::<usize>);
    par_items(ops.len(), threads(), |i, _| {
        if found.lock().unwrap().map(|f| f < i).unwrap_or(false) || started.elapsed().as_secs() > 120 {
            return;
        }
        let h = [ops[i].clone()];
        if shows(&h) && shows(&h) {
            let mut g = found.lock().unwrap();
            if g.map(|f| i < f).unwrap_or(true) {
                *g = Some(i);
            }
        }
    });
    let i = found.into_inner().unwrap()?;
    Some(json!({"engine": "after-history", "history": [ops[i].to_json()], "case": case}))
}

pub fn replay_after(_prop: &'static str, case: &Value, replayer: &(dyn Fn(&Value) -> Option<Vec<Violation>> + Sync)) -> Option<Vec<Violation>> {
    let h: Vec<Op> = case["history"].as_array()?.iter().filter_map(Op::from_json).collect();
    let vs = after(&h, &case["case"], replayer)?;
    // the violations carry the inner case; report them under the extended one
    Some(vs.into_iter().map(|mut v| {
        v.case = case.clone();
        v
    }).collect())
}

#[allow(dead_code)]
fn unused(_: Cow<str>) {}
