//! History independence — explicit exploration of operation SEQUENCES over independent objects.
//!
//! The library has no global state: the outcome of an operation on fresh arguments must not depend
//! on what the process (or the thread) did before. A memo table, a "last type seen" cache, a scratch
//! buffer hoisted to module or thread scope, a lazily built table — each of them looks fine in every
//! single-call test and in every per-input enumeration, and shows only when one particular call
//! precedes another. This explorer runs, for every operation y of an alphabet, y after EVERY
//! operation x (depth 2) and, for a sub-alphabet, y after every pair x1;x2 (depth 3), each job
//! sequentially in one thread, and requires all outcomes of y to be identical. A counter-example is
//! two histories followed by the same operation; the replay re-executes both.

use std::borrow::Cow;

use serde_json::{json, Value};

use crate::builders::*;
use crate::common::*;
use crate::lens;

#[derive(Clone, Debug, PartialEq)]
pub enum Op {
    /// parse with flavour 0 = String, 1 = SmallString, 2 = PackageType
    Parse(u8, String),
    Build(&'static str, BuildSpec),
    TypeFromStr(String),
    Combined(String, String),
    ChecksumText(String),
    QualsFromPairs(Vec<(String, String)>),
}

impl Op {
    pub fn to_json(&self) -> Value {
        match self {
            Op::Parse(f, s) => json!({"parse": s, "flavor": f}),
            Op::Build(f, spec) => json!({"build": spec.to_json(), "flavor": f}),
            Op::TypeFromStr(s) => json!({"package_type_from_str": s}),
            Op::Combined(t, s) => json!({"combined": s, "ty": t}),
            Op::ChecksumText(s) => json!({"checksum": s}),
            Op::QualsFromPairs(p) => json!({"try_from_iter": p}),
        }
    }
    pub fn from_json(v: &Value) -> Option<Op> {
        if let Some(s) = v["parse"].as_str() {
            return Some(Op::Parse(v["flavor"].as_u64()? as u8, s.to_owned()));
        }
        if !v["build"].is_null() {
            let f = BUILD_FLAVORS.iter().find(|x| Some(**x) == v["flavor"].as_str())?;
            return Some(Op::Build(f, BuildSpec::from_json(&v["build"])?));
        }
        if let Some(s) = v["package_type_from_str"].as_str() {
            return Some(Op::TypeFromStr(s.to_owned()));
        }
        if let Some(s) = v["combined"].as_str() {
            return Some(Op::Combined(v["ty"].as_str()?.to_owned(), s.to_owned()));
        }
        if let Some(s) = v["checksum"].as_str() {
            return Some(Op::ChecksumText(s.to_owned()));
        }
        let pairs = v["try_from_iter"].as_array()?;
        Some(Op::QualsFromPairs(pairs.iter().filter_map(|p| Some((p[0].as_str()?.to_owned(), p[1].as_str()?.to_owned()))).collect()))
    }
    /// which property the outcome of this operation belongs to
    pub fn prop(&self) -> &'static str {
        match self {
            Op::Parse(..) => "C02",
            Op::Build(..) => "C09",
            Op::TypeFromStr(_) => "C15",
            Op::Combined(..) => "C18",
            Op::ChecksumText(_) => "C12",
            Op::QualsFromPairs(_) => "C11",
        }
    }
}

fn outcome_line<T: Flavor>(r: Result<purl::GenericPurl<T>, T::Error>) -> String {
    match r {
        Err(e) => format!("ERR {}", T::err_text(&e)),
        Ok(p) => {
            let o = observe(&p);
            let again = p.clone().into_builder().build().map(|q| q == p).unwrap_or(false);
            format!("OK {}|{:?}|{}|{:?}|{:?}|{:?}|{}|rebuild-equal={}", o.ty, o.ns, o.name, o.version, o.quals, o.subpath, p.to_string(), again)
        },
    }
}

struct Line(String);
impl WithPurl for Line {
    fn ok<T: Flavor>(&mut self, _f: &'static str, p: &purl::GenericPurl<T>, _acc: &mut Acc) {
        let o = observe(p);
        self.0 = format!("OK {}|{:?}|{}|{:?}|{:?}|{:?}|{}", o.ty, o.ns, o.name, o.version, o.quals, o.subpath, p.to_string());
    }
    fn refused(&mut self, _f: &'static str, class: Option<ErrClass>, text: &str, _acc: &mut Acc) {
        self.0 = format!("ERR {:?} {}", class.map(|c| c.name()), text);
    }
}

/// Execute one operation on fresh arguments; the outcome as text (a panic is an outcome too).
pub fn run_op(op: &Op, acc: &mut Acc) -> String {
    acc.calls += 1;
    let r = guarded(|| match op {
        Op::Parse(0, s) => outcome_line::<String>(<String as PFlavor>::parse(s)),
        #[cfg(feature = "smart")]
        Op::Parse(1, s) => outcome_line::<purl::SmallString>(<purl::SmallString as PFlavor>::parse(s)),
        #[cfg(feature = "typed")]
        Op::Parse(2, s) => outcome_line::<purl::PackageType>(<purl::PackageType as PFlavor>::parse(s)),
        Op::Parse(_, _) => "flavour not in this build".to_owned(),
        Op::Build(f, spec) => {
            let mut l = Line(String::new());
            let mut a = Acc::new();
            build_flavor(f, spec, &mut a, &mut l);
            l.0
        },
        #[cfg(feature = "typed")]
        Op::TypeFromStr(s) => {
            use std::str::FromStr;
            format!("{:?}", purl::PackageType::from_str(s).map(|t| t.name()).map_err(|e| e.to_string()))
        },
        #[cfg(feature = "typed")]
        Op::Combined(t, s) => match <purl::PackageType as Flavor>::mk(t) {
            None => "no such type".to_owned(),
            Some(pt) => {
                let b = purl::Purl::builder_with_combined_name(pt, s.as_str());
                let parts = format!("{:?}|{:?}", b.parts.namespace, b.parts.name);
                match b.build() {
                    Ok(p) => format!("{parts} -> {} ; combined_name = {:?}", p, p.combined_name()),
                    Err(e) => format!("{parts} -> ERR {e}"),
                }
            },
        },
        #[cfg(not(feature = "typed"))]
        Op::TypeFromStr(_) | Op::Combined(..) => "typed API not in this build".to_owned(),
        Op::ChecksumText(s) => match purl::qualifiers::well_known::Checksum::try_from(s.as_str()) {
            Err(e) => format!("ERR {e}"),
            Ok(c) => {
                let mut entries: Vec<(String, String)> = c.iter().map(|(a, v)| (a.to_owned(), v.raw().to_owned())).collect();
                entries.sort();
                let text = purl::GenericPurlBuilder::new("t".to_owned(), "n").try_with_typed_qualifier(Some(c)).map(|b| b.parts.qualifiers.get("checksum").map(str::to_owned)).map_err(|e| e.to_string());
                format!("OK {:?} text={:?}", entries, text)
            },
        },
        Op::QualsFromPairs(pairs) => match purl::Qualifiers::try_from_iter(pairs.iter().map(|(k, v)| (k.as_str(), v.as_str()))) {
            Err(e) => format!("ERR {e}"),
            Ok(q) => format!("OK {:?} get(K)={:?}", q.iter().map(|(k, v)| (k.as_str().to_owned(), v.to_owned())).collect::<Vec<_>>(), q.get("K")),
        },
    });
    match r {
        Ok(s) => s,
        Err(m) => format!("PANIC {m}"),
    }
}

/// The alphabet of operations, simplest first.
pub fn alphabet(tier: Tier) -> Vec<Op> {
    let mut ops: Vec<Op> = Vec::new();
    let mut push = |o: Op, ops: &mut Vec<Op>| {
        if !ops.contains(&o) {
            ops.push(o);
        }
    };
    // parser, type-agnostic: every node of the macro-separator lens up to 2 tokens
    let depth = if tier == Tier::Quick { 2 } else { 2 };
    let l = lens::lens("A1b");
    let mut stack: Vec<(String, usize)> = vec![("pkg:t/".to_owned(), 0)];
    let mut nodes = Vec::new();
    while let Some((s, d)) = stack.pop() {
        if d < depth {
            for t in l.alphabet.iter().rev() {
                stack.push((format!("{s}{t}"), d + 1));
            }
        }
        nodes.push(s);
    }
    for s in nodes {
        push(Op::Parse(0, s), &mut ops);
    }
    for s in ["pkg:T/n", "pkg:T.x/N@1", "pkg:abcdefghijklmnopqrstuvwxyz/n", "pkg:t/n?checksum=B:FF,a:0A", "pkg:t/n?checksum=a:0a,b:ff", "pkg:t/n?CheckSum=É:00", "pkg:t/n?k=v&K2=w", "pkg:t/%C3%A9@%C3%A9#%C3%A9", "pkg:t/a-name-that-is-longer-than-the-inline-buffer@1", "PKG:t/n", "pkg:/t/n", "pkg:t/n?k=a%26b"] {
        push(Op::Parse(0, s.to_owned()), &mut ops);
        push(Op::Parse(1, s.to_owned()), &mut ops);
    }
    // parser, typed: every known type in several spellings x several names
    for ty in ["cargo", "gem", "golang", "maven", "npm", "nuget", "pypi", "NPM", "PyPI", "NuGet", "Maven", "generic", "npmx", "np"] {
        for rest in ["a", "a-b", "A_b.C", "g/a", "g/h/a@1", "%40s/a", "a?k=v#s", "\u{212A}-x", "a:b"] {
            push(Op::Parse(2, format!("pkg:{ty}/{rest}")), &mut ops);
        }
    }
    // builder, every flavour
    for ty in ["t", "T", "npm", "NPM", "pypi", "PyPI", "maven", "nuget", "NuGet", "x.y", "", "!"] {
        for (ns, name, version) in [("", "a", ""), ("g", "A_b.C", "1"), ("", "é", ""), ("g/h", "a-name-that-is-longer-than-the-inline-buffer", "")] {
            let spec = BuildSpec { ty: ty.to_owned(), ns: ns.to_owned(), name: name.to_owned(), version: version.to_owned(), quals: if version.is_empty() { vec![] } else { vec![("K".into(), "v".into()), ("checksum".into(), "B:FF,a:0A".into())] }, subpath: String::new() };
            for f in BUILD_FLAVORS {
                push(Op::Build(f, spec.clone()), &mut ops);
            }
        }
    }
    for s in ["cargo", "gem", "golang", "maven", "npm", "nuget", "pypi", "CARGO", "Gem", "GoLang", "MAVEN", "Npm", "NuGet", "PyPI", "", "np", "npmm", "pip", "generic", "\u{212A}", "nu\u{212A}et", "pypı"] {
        push(Op::TypeFromStr(s.to_owned()), &mut ops);
    }
    for ty in ["cargo", "gem", "golang", "maven", "npm", "nuget", "pypi"] {
        for s in ["a", "a/b", "a:b", "@s/n", "g/h/n:m"] {
            push(Op::Combined(ty.to_owned(), s.to_owned()), &mut ops);
        }
    }
    for s in ["a:00", "B:FF,a:0A", "a:0a,b:ff", "a:00,A:11", "a:0", "zz", "", "É:00,é:11", "sha256:00ff,md5:aa", "a:00,"] {
        push(Op::ChecksumText(s.to_owned()), &mut ops);
    }
    for pairs in [vec![], vec![("k", "v")], vec![("K", "v")], vec![("b", "2"), ("A", "1")], vec![("a", "1"), ("A", "2")], vec![("!", "v")], vec![("k_", "1"), ("kz", "2"), ("K", "3")]] {
        push(Op::QualsFromPairs(pairs.iter().map(|(k, v)| (k.to_string(), v.to_string())).collect()), &mut ops);
    }
    ops
}

/// `only`: property whose operations are judged (the operations of the other kinds still take part
/// as predecessors).
pub fn explore(prop: &'static str, tier: Tier) -> (Acc, Value) {
    let ops = alphabet(tier);
    let n = ops.len();
    let judged: Vec<usize> = (0..n).filter(|i| ops[*i].prop() == prop).collect();
    // depth 2: every judged y after every x
    // (every job runs in a thread of its own, so that thread-local state starts fresh and a replay
    // of the recorded histories meets the same conditions)
    let mut acc = par_items(judged.len(), threads(), |ji, acc| std::thread::scope(|sc| { sc.spawn(|| {
        let y = &ops[judged[ji]];
        let mut base: Option<(usize, String)> = None;
        for (xi, x) in ops.iter().enumerate() {
            let _ = run_op(x, acc);
            let o = run_op(y, acc);
            acc.evals += 1;
            acc.nontrivial += 1;
            acc.sig(&(o.starts_with("OK"), o.len().min(40)));
            match &base {
                None => base = Some((xi, o)),
                Some((bi, b)) => {
                    if *b != o {
                        acc.violate(Violation {
                            prop,
                            kind: "outcome-depends-on-history".into(),
                            // (the exploration interleaves: x0 y x1 y ... xk y; the replay first tries the two
                            // short histories and falls back to the whole prefix)
                            case: json!({"engine": "history", "history_a": [ops[*bi].to_json()], "history_b": [x.to_json()], "op": y.to_json(), "prefix": {"tier": if tier == Tier::Quick { "quick" } else { "thorough" }, "upto": xi}}),
                            detail: format!("after history a: {b}; after history b: {o}"),
                        });
                    }
                },
            }
        }
    }).join().expect("history job"); }));
    let pairs = acc.evals;
    // depth 3 over a sub-alphabet (every k-th operation, all judged ones as y)
    let step = if tier == Tier::Quick { 9 } else { 3 };
    let sub: Vec<usize> = (0..n).filter(|i| i % step == 0).collect();
    let a3 = par_items(judged.len(), threads(), |ji, acc| std::thread::scope(|sc| { sc.spawn(|| {
        let y = &ops[judged[ji]];
        let base = {
            let _ = run_op(&ops[sub[0]], acc);
            run_op(y, acc)
        };
        for x1 in &sub {
            for x2 in &sub {
                let _ = run_op(&ops[*x1], acc);
                let _ = run_op(&ops[*x2], acc);
                let o = run_op(y, acc);
                acc.evals += 1;
                acc.nontrivial += 1;
                if o != base {
                    acc.violate(Violation {
                        prop,
                        kind: "outcome-depends-on-history".into(),
                        case: json!({"engine": "history", "history_a": [ops[sub[0]].to_json()], "history_b": [ops[*x1].to_json(), ops[*x2].to_json()], "op": y.to_json()}),
                        detail: format!("after history a: {base}; after history b: {o}"),
                    });
                }
            }
        }
    }).join().expect("history job"); }));
    let triples = a3.evals;
    acc.merge(a3);
    let rep = json!({"engine": "H-history-independence", "operations": n, "judged_operations": judged.len(), "depth2_sequences": pairs, "depth3_sub_alphabet": sub.len(), "depth3_sequences": triples,
                     "oracle": "the outcome of an operation on fresh arguments is the same after every history"});
    (acc, rep)
}

pub fn replay(prop: &'static str, case: &Value) -> Option<Vec<Violation>> {
    let y = Op::from_json(&case["op"])?;
    let mut acc = Acc::new();
    let mut outs = Vec::new();
    for h in ["history_a", "history_b"] {
        let xs: Vec<Op> = case[h].as_array()?.iter().filter_map(Op::from_json).collect();
        let y = y.clone();
        // each history in a thread of its own (fresh thread-local state, as in the exploration)
        let o = std::thread::spawn(move || {
            let mut a = Acc::new();
            for x in &xs {
                let _ = run_op(x, &mut a);
            }
            run_op(&y, &mut a)
        })
        .join()
        .ok()?;
        outs.push(o);
    }
    if outs[0] != outs[1] {
        acc.violate(Violation { prop, kind: "outcome-depends-on-history".into(), case: case.clone(), detail: format!("after history a: {}; after history b: {}", outs[0], outs[1]) });
    } else if let Some(upto) = case["prefix"]["upto"].as_u64() {
        // the whole interleaved prefix of the exploration job
        let tier = if case["prefix"]["tier"] == json!("thorough") { Tier::Thorough } else { Tier::Quick };
        let ops = alphabet(tier);
        let y2 = y.clone();
        let (first, last) = std::thread::spawn(move || {
            let mut a = Acc::new();
            let mut first = None;
            let mut last = String::new();
            for x in ops.iter().take(upto as usize + 1) {
                let _ = run_op(x, &mut a);
                last = run_op(&y2, &mut a);
                if first.is_none() {
                    first = Some(last.clone());
                }
            }
            (first.unwrap_or_default(), last)
        })
        .join()
        .ok()?;
        if first != last {
            acc.violate(Violation { prop, kind: "outcome-depends-on-history".into(), case: case.clone(), detail: format!("after history a: {first}; after the interleaved prefix of {} operations: {last}", upto + 1) });
        }
    }
    Some(acc.violations)
}

#[allow(dead_code)]
fn unused(_: Cow<str>) {}
