//! Self-check of Engine C: the C11 model expressed as a `stateright::Model` over the very same step
//! function. stateright's BFS must find the same number of unique states and no property violation.

use stateright::{Checker, Model, Property};

use crate::common::*;
use crate::m_quals::{content, QModel, QState};
use crate::xstate::Model as XModel;

#[derive(Clone, Debug, PartialEq, Eq, Hash)]
pub struct SrState {
    real: purl::Qualifiers,
    refm: std::collections::BTreeMap<String, String>,
}

struct SrQuals {
    inner: QModel,
    inits: Vec<SrState>,
}

impl Model for SrQuals {
    type Action = usize;
    type State = SrState;

    fn init_states(&self) -> Vec<SrState> {
        self.inits.clone()
    }

    fn actions(&self, _s: &SrState, acts: &mut Vec<usize>) {
        acts.extend(0..self.inner.acts.len());
    }

    fn next_state(&self, s: &SrState, a: usize) -> Option<SrState> {
        let mut acc = Acc::new();
        let st = QState { real: s.real.clone(), refm: s.refm.clone() };
        let n = self.inner.step(&st, &self.inner.acts[a], &|| serde_json::Value::Null, &mut acc);
        Some(SrState { real: n.real, refm: n.refm })
    }

    fn properties(&self) -> Vec<Property<Self>> {
        vec![Property::<Self>::always("content equals the reference map", |_, s: &SrState| {
            content(&s.real) == s.refm.iter().map(|(k, v)| (k.clone(), v.clone())).collect::<Vec<_>>()
        })]
    }
}

pub fn run(tier: Tier, out: Option<&str>) -> i32 {
    let inner = QModel::new(tier, false);
    let mut inits: Vec<SrState> = Vec::new();
    let mut seen = std::collections::HashSet::new();
    for (_, s) in inner.inits(&mut Acc::new()) {
        let st = SrState { real: s.real, refm: s.refm };
        if seen.insert(st.clone()) {
            inits.push(st);
        }
    }
    let n_inits = inits.len();
    let checker = SrQuals { inner, inits }.checker().threads(threads()).spawn_bfs().join();
    let unique = checker.unique_state_count();
    let discoveries: Vec<String> = checker.discoveries().keys().map(|k| k.to_string()).collect();
    let body = serde_json::json!({"engine": "stateright 0.31 BFS", "unique_states": unique, "states_generated": checker.state_count(), "max_depth": checker.max_depth(), "done": checker.is_done(), "initial_states": n_inits, "discoveries": discoveries});
    println!("{body}");
    if let Some(o) = out {
        let _ = std::fs::write(o, body.to_string());
    }
    0
}
