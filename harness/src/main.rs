mod common;
mod lens;
mod monitors;
mod props;
mod refmodel;
mod selftest;
mod sweeps;
mod builders;
mod xstate;
mod m_quals;
mod m_builder;
mod m_checksum;
mod m_shapes;
mod spell;
mod engine_b;
mod pools;
mod transcript;
mod hashorder;
mod hist;
#[cfg(feature = "sr")]
mod sr_quals;

use common::Tier;

fn main() {
    let args: Vec<String> = std::env::args().collect();
    if args.len() < 2 {
        eprintln!("usage: purl-verif <Cxx|selftest> [--tier quick|thorough] [--replay <file>]");
        std::process::exit(2);
    }
    let prop = args[1].clone();
    let mut tier = match std::env::var("VERIF_TIER").as_deref() {
        Ok("thorough") => Tier::Thorough,
        _ => Tier::Quick,
    };
    let mut replay: Option<String> = None;
    let mut out: Option<String> = None;
    let mut chunk: Option<String> = None;
    let mut i = 2;
    while i < args.len() {
        match args[i].as_str() {
            "--tier" => {
                i += 1;
                tier = if args.get(i).map(String::as_str) == Some("thorough") { Tier::Thorough } else { Tier::Quick };
            },
            "--replay" => {
                i += 1;
                replay = args.get(i).cloned();
            },
            "--out" => {
                i += 1;
                out = args.get(i).cloned();
            },
            "--chunk" => {
                i += 1;
                chunk = args.get(i).cloned();
            },
            other => {
                eprintln!("unknown argument {other}");
                std::process::exit(2);
            },
        }
        i += 1;
    }
    let seed: i64 = std::env::var("VERIF_SEED").ok().and_then(|s| s.parse().ok()).unwrap_or(0);
    // silence the default panic message: every library call is wrapped and reported by the harness
    std::panic::set_hook(Box::new(|_| {}));
    if prop == "transcript" {
        let Some(out) = out else {
            eprintln!("transcript needs --out <file>");
            std::process::exit(2);
        };
        std::process::exit(transcript::write_transcript(tier, &out, chunk.as_deref()));
    }
    if prop == "sr-quals" {
        #[cfg(feature = "sr")]
        std::process::exit(sr_quals::run(tier, out.as_deref()));
        #[cfg(not(feature = "sr"))]
        {
            eprintln!("MACHINERY: sr-quals needs a build with the sr feature");
            std::process::exit(2);
        }
    }
    if prop == "hashorder" {
        #[cfg(purl_verif)]
        {
            let Some(out) = out else {
                eprintln!("hashorder needs --out <file>");
                std::process::exit(2);
            };
            std::process::exit(hashorder::run(tier, &out));
        }
        #[cfg(not(purl_verif))]
        {
            eprintln!("MACHINERY: hashorder needs a build with --cfg purl_verif");
            std::process::exit(2);
        }
    }
    // a panic that escapes every guard is a defect of the harness (or a library panic on a path the
    // harness did not expect to panic): machinery exit, never a verdict
    let code = match common::guarded(|| props::run(&prop, tier, seed, replay.as_deref())) {
        Ok(c) => c,
        Err(msg) => {
            println!("MACHINERY: the harness panicked outside every guard: {msg}");
            2
        },
    };
    std::process::exit(code);
}
