fn main(){}
