//! Building PURLs from field values, for every built-in type parameter; the `build` replay format.

use std::borrow::Cow;
use std::collections::HashMap;
use std::sync::Mutex;

use purl::{GenericPurl, GenericPurlBuilder};
use serde_json::{json, Value};

use crate::common::*;
use crate::monitors::*;

#[derive(Clone, Debug, Default, PartialEq, Eq, Hash)]
pub struct BuildSpec {
    pub ty: String,
    pub ns: String,
    pub name: String,
    pub version: String,
    pub quals: Vec<(String, String)>,
    pub subpath: String,
}

impl BuildSpec {
    pub fn to_json(&self) -> Value {
        json!({"ty": self.ty, "ns": self.ns, "name": self.name, "version": self.version, "quals": self.quals, "subpath": self.subpath})
    }
    pub fn from_json(v: &Value) -> Option<BuildSpec> {
        Some(BuildSpec {
            ty: v["ty"].as_str()?.to_owned(),
            ns: v["ns"].as_str()?.to_owned(),
            name: v["name"].as_str()?.to_owned(),
            version: v["version"].as_str()?.to_owned(),
            quals: v["quals"].as_array()?.iter().filter_map(|p| Some((p[0].as_str()?.to_owned(), p[1].as_str()?.to_owned()))).collect(),
            subpath: v["subpath"].as_str()?.to_owned(),
        })
    }
}

pub fn case_build(flavor: &str, spec: &BuildSpec) -> Value {
    json!({"engine": "build", "flavor": flavor, "spec": spec.to_json()})
}

/// Intern a type string so that a `Cow::Borrowed(&'static str)` can be made from it. The universe
/// of type strings used by the checks is small and fixed, so the leak is bounded.
pub fn intern(s: &str) -> &'static str {
    static TABLE: Mutex<Option<HashMap<String, &'static str>>> = Mutex::new(None);
    let mut g = TABLE.lock().unwrap();
    let t = g.get_or_insert_with(HashMap::new);
    if let Some(v) = t.get(s) {
        return v;
    }
    let leaked: &'static str = Box::leak(s.to_owned().into_boxed_str());
    t.insert(s.to_owned(), leaked);
    leaked
}

pub enum Built<T: Flavor> {
    Ok(GenericPurl<T>),
    /// a qualifier key was refused by with_qualifier
    KeyRefused,
    Err(ErrClass, String),
}

pub fn build_with<T: Flavor>(pt: T, spec: &BuildSpec, acc: &mut Acc) -> Built<T> {
    acc.calls += 5 + spec.quals.len() as u64;
    let mut b = GenericPurlBuilder::new(pt, spec.name.as_str())
        .with_namespace(spec.ns.as_str())
        .with_version(spec.version.as_str())
        .with_subpath(spec.subpath.as_str());
    for (k, v) in &spec.quals {
        b = match b.with_qualifier(k.as_str(), v.as_str()) {
            Ok(b) => b,
            Err(_) => return Built::KeyRefused,
        };
    }
    match b.build() {
        Ok(p) => Built::Ok(p),
        Err(e) => Built::Err(T::classify(&e), T::err_text(&e)),
    }
}

/// Names of the builder flavours.
pub const BUILD_FLAVORS: [&str; 6] = ["String", "CowOwned", "CowBorrowed", "SmallString", "SmallStringHeap", "PackageType"];

/// Build `spec` with the flavour named `flavor` and hand the value to `f` (monomorphised per flavour
/// through the `WithPurl` visitor).
pub trait WithPurl {
    fn ok<T: Flavor>(&mut self, flavor: &'static str, p: &GenericPurl<T>, acc: &mut Acc);
    fn refused(&mut self, _flavor: &'static str, _class: Option<ErrClass>, _text: &str, _acc: &mut Acc) {}
}

pub fn build_flavor(flavor: &str, spec: &BuildSpec, acc: &mut Acc, f: &mut impl WithPurl) {
    fn go<T: Flavor>(name: &'static str, pt: Option<T>, spec: &BuildSpec, acc: &mut Acc, f: &mut impl WithPurl) {
        let Some(pt) = pt else {
            f.refused(name, Some(ErrClass::Unsupported), "type string is not a PackageType", acc);
            return;
        };
        match build_with(pt, spec, acc) {
            Built::Ok(p) => f.ok(name, &p, acc),
            Built::KeyRefused => f.refused(name, None, "with_qualifier refused a key", acc),
            Built::Err(c, t) => f.refused(name, Some(c), &t, acc),
        }
    }
    match flavor {
        "String" => go::<String>("String", Some(spec.ty.clone()), spec, acc, f),
        "CowOwned" => go::<Cow<'static, str>>("CowOwned", Some(Cow::Owned(spec.ty.clone())), spec, acc, f),
        "CowBorrowed" => go::<Cow<'static, str>>("CowBorrowed", Some(Cow::Borrowed(intern(&spec.ty))), spec, acc, f),
        #[cfg(feature = "smart")]
        "SmallString" => go::<purl::SmallString>("SmallString", Some(purl::SmallString::from(spec.ty.as_str())), spec, acc, f),
        // the same value in the other representation: a small string that lives on the heap although its
        // content would fit inline (it was longer once)
        #[cfg(feature = "smart")]
        "SmallStringHeap" => {
            let mut t = purl::SmallString::from("x".repeat(64));
            t.truncate(0);
            t.push_str(&spec.ty);
            go::<purl::SmallString>("SmallStringHeap", Some(t), spec, acc, f)
        },
        #[cfg(feature = "typed")]
        "PackageType" => go::<purl::PackageType>("PackageType", <purl::PackageType as Flavor>::mk(&spec.ty), spec, acc, f),
        _ => {},
    }
}

/// Value monitors on a built value (no input string, so no M07/M02/M05).
pub struct BuildEval {
    pub prop: &'static str,
    pub mon: u32,
}

struct MonVisitor<'a> {
    ev: &'a BuildEval,
    spec: &'a BuildSpec,
    nontrivial: bool,
}

impl WithPurl for MonVisitor<'_> {
    fn ok<T: Flavor>(&mut self, flavor: &'static str, p: &GenericPurl<T>, acc: &mut Acc) {
        let case = case_build(flavor, self.spec);
        acc.accepted += 1;
        self.nontrivial = true;
        if self.ev.mon & M03 != 0 {
            m03(p, &case, acc);
        }
        if self.ev.mon & M04 != 0 {
            m04(p, true, &case, acc);
        }
        if self.ev.mon & M10 != 0 {
            m10(p, &case, acc);
        }
        if self.ev.mon & M12 != 0 {
            m12(p, &case, acc);
        }
        if self.ev.mon & M06 != 0 {
            acc.calls += 3;
            let _ = p.to_string();
            let _ = format!("{:?}", p);
            let _ = p.clone().into_builder().build();
        }
    }
    fn refused(&mut self, _flavor: &'static str, _class: Option<ErrClass>, _text: &str, acc: &mut Acc) {
        acc.rejected += 1;
    }
}

impl BuildEval {
    pub fn eval(&self, flavor: &str, spec: &BuildSpec, acc: &mut Acc) -> bool {
        acc.evals += 1;
        let mut v = MonVisitor { ev: self, spec, nontrivial: false };
        match guarded(|| build_flavor(flavor, spec, acc, &mut v)) {
            Ok(()) => v.nontrivial,
            Err(msg) => {
                acc.count("panics");
                acc.violate(Violation { prop: "C06", kind: "panic".into(), case: case_build(flavor, spec), detail: format!("panic while building/formatting: {msg}") });
                false
            },
        }
    }
}
